(* C11 — escaping of non-ASCII characters: the output is ASCII, the escapes have the documented
   form \u{hex} (surrogate pairs for astral code points on request) and decode back to the code
   point. *)
From Grex Require Import Base.Str Model.Config Model.Cluster Model.Dfa Model.Expr Model.Print
  Model.Pipeline.
From Grex Require Import Proofs.PrintShape Proofs.EscapeProps Proofs.PropsGlue.
From Grex Require Proofs.SurrogateDecode Proofs.SurrogateRepair Proofs.SurrogateEq Proofs.PrintParseDefs Proofs.PrintParseNum Proofs.Lang.
From Grex Require Proofs.SurrogateDecodeX Proofs.PrintParseXTok.
From Grex Require Engine.Syntax Engine.Parse Engine.Sem.
Local Open Scope N_scope.

(* with escaping enabled the whole output is ASCII *)
Theorem C11_ascii : forall isd c db sc ws s,
  f_esc c = true -> build isd c db sc ws = Some s -> Forall (fun x => x < 128) s.
Proof. exact build_ascii. Qed.

Theorem C11_ascii_expr : forall isd c d e,
  f_esc c = true -> expr_from c d = Some e -> Forall (fun x => x < 128) (regexp_str isd c e).
Proof. exact regexp_str_from_ascii. Qed.

Theorem C11_ascii_codepoint : forall sur c, Forall (fun x => x < 128) (escape_cp sur c).
Proof. exact escape_cp_ascii. Qed.

(* the form of an escape: ASCII is kept, everything else becomes \u{hex} *)
Theorem C11_form : forall sur c,
  (c < 128 -> escape_cp sur c = [c])
  /\ (128 <= c -> sur = false \/ is_astral c = false ->
      escape_cp sur c = [92; 117; 123] ++ hex_of_N c ++ [125]).
Proof.
  intros sur c. split; [exact (escape_cp_ascii_id sur c)|exact (escape_cp_unicode sur c)].
Qed.

(* astral code points as surrogate pairs: the two escapes are the UTF-16 encoding *)
Theorem C11_surrogates : forall c,
  65536 <= c <= 1114111 ->
  escape_cp true c = esc_unicode (hi_surrogate c) ++ esc_unicode (lo_surrogate c)
  /\ 55296 <= hi_surrogate c <= 56319
  /\ 56320 <= lo_surrogate c <= 57343
  /\ 65536 + (hi_surrogate c - 55296) * 1024 + (lo_surrogate c - 56320) = c.
Proof. exact escape_cp_surrogate_full. Qed.

(* lower-case hexadecimal without leading zeros, and it reads back *)
Theorem C11_hex_roundtrip : forall n, unhex (hex_of_N n) = Some n.
Proof. exact unhex_hex_of_N. Qed.

Theorem C11_hex_shape : forall n,
  hex_of_N n <> [] /\ Forall is_hex (hex_of_N n) /\ (n <> 0 -> hd 0 (hex_of_N n) <> 48).
Proof.
  intro n. exact (conj (hex_of_N_nonempty n) (conj (hex_of_N_digits n) (hex_of_N_no_leading_zero n))).
Qed.

(* decoding the escape of a non-ASCII scalar value gives the code point back *)
Theorem C11_decode : forall sur c,
  128 <= c -> (c < 55296 \/ 57344 <= c <= 1114111) -> decode_escapes (escape_cp sur c) = [c].
Proof. exact escape_decode. Qed.

(* decoding the surrogate escapes (re-pairing) gives a pattern with the language of the
   expression, i.e. of the build without surrogate pairs (non-verbose mode) *)
Theorem C11_repair_language : forall (lit_den cls_den : cp -> cp -> Prop) (isd is_ws : cp -> bool) (c : cfg) (e : expr),
  f_verbose c = false -> PrintParseDefs.wf_print e -> PrintParseNum.ws_ok is_ws ->
  exists fl r, Parse.parse is_ws (SurrogateRepair.repair (regexp_str isd (SurrogateDecode.sur c) e)) = Some (fl, r)
    /\ Syntax.fl_i fl = f_ci c /\ Syntax.fl_x fl = false
    /\ (forall s, Sem.L_rast lit_den cls_den r s <-> Lang.L_expr lit_den cls_den e s).
Proof. exact SurrogateDecode.repair_parse. Qed.

Theorem C11_repair_same_language : forall (lit_den cls_den : cp -> cp -> Prop) (isd is_ws : cp -> bool) (c : cfg) (e : expr),
  f_verbose c = false -> PrintParseDefs.wf_print e -> PrintParseNum.ws_ok is_ws ->
  exists fl r1 r2,
    Parse.parse is_ws (SurrogateRepair.repair (regexp_str isd (SurrogateDecode.sur c) e)) = Some (fl, r1)
    /\ Parse.parse is_ws (regexp_str isd (SurrogateDecode.nosur c) e) = Some (fl, r2)
    /\ (forall s, Sem.L_rast lit_den cls_den r1 s <-> Sem.L_rast lit_den cls_den r2 s).
Proof. exact SurrogateDecode.repair_same_language. Qed.

(* the same in verbose mode: the re-paired (?x) pattern is accepted under the x flag and denotes
   the language of the expression, i.e. of the verbose build without surrogate pairs *)
Theorem C11_repair_language_verbose : forall (lit_den cls_den : cp -> cp -> Prop) (isd is_ws : cp -> bool) (c : cfg) (e : expr),
  f_verbose c = true -> PrintParseDefs.wf_print e -> PrintParseXTok.ws_x is_ws ->
  exists fl r, Parse.parse is_ws (SurrogateRepair.repair (regexp_str isd (SurrogateDecode.sur c) e)) = Some (fl, r)
    /\ Syntax.fl_i fl = f_ci c /\ Syntax.fl_x fl = true
    /\ (forall s, Sem.L_rast lit_den cls_den r s <-> Lang.L_expr lit_den cls_den e s).
Proof. exact SurrogateDecodeX.repair_parse_verbose. Qed.

Theorem C11_repair_same_language_verbose : forall (lit_den cls_den : cp -> cp -> Prop) (isd is_ws : cp -> bool) (c : cfg) (e : expr),
  f_verbose c = true -> PrintParseDefs.wf_print e -> PrintParseXTok.ws_x is_ws ->
  exists fl r1 r2,
    Parse.parse is_ws (SurrogateRepair.repair (regexp_str isd (SurrogateDecode.sur c) e)) = Some (fl, r1)
    /\ Parse.parse is_ws (regexp_str isd (SurrogateDecode.nosur c) e) = Some (fl, r2)
    /\ (forall s, Sem.L_rast lit_den cls_den r1 s <-> Sem.L_rast lit_den cls_den r2 s).
Proof. exact SurrogateDecodeX.repair_same_language_verbose. Qed.

Theorem C11_repair_identity_without_surrogates : forall (isd : cp -> bool) (c : cfg) (gap : Prop) (e : expr),
  f_verbose c = false -> PrintParseDefs.wf_print_gen gap e ->
  SurrogateRepair.repair (regexp_str isd (SurrogateDecode.nosur c) e) = regexp_str isd (SurrogateDecode.nosur c) e.
Proof. exact SurrogateEq.repair_nosur_id. Qed.

Print Assumptions C11_ascii.
Print Assumptions C11_ascii_expr.
Print Assumptions C11_ascii_codepoint.
Print Assumptions C11_form.
Print Assumptions C11_surrogates.
Print Assumptions C11_hex_roundtrip.
Print Assumptions C11_hex_shape.
Print Assumptions C11_decode.
Print Assumptions C11_repair_language.
Print Assumptions C11_repair_same_language.
Print Assumptions C11_repair_language_verbose.
Print Assumptions C11_repair_same_language_verbose.
Print Assumptions C11_repair_identity_without_surrogates.

(* NON-VACUITY (Proofs/NonVacuity.v, worlds W8 and W5): inputs with non-ASCII code points
   ("é_", U+1F4A9) built with escaping: the outputs the model computes are pure ASCII, as
   C11_ascii says; with surrogate pairs the astral code point becomes \u{d83d}\u{dca9}. *)
From Grex Require Proofs.NonVacuity.
Theorem C11_nonvacuous : exists e8 s8 e5 s5,
  NonVacuity.world_ok NonVacuity.c_W8 NonVacuity.db_W8 SCPass1 NonVacuity.ws_W8 true e8 s8
  /\ NonVacuity.world_ok NonVacuity.c_W5 NonVacuity.db_W5 SCSkipped NonVacuity.ws_W5 true e5 s5
  /\ Exists (Exists (fun x => 128 <= x)) NonVacuity.ws_W8
  /\ Forall (fun x => x < 128) s8 /\ Forall (fun x => x < 128) s5
  /\ s5 = [92; 117; 123; 100; 56; 51; 100; 125; 92; 117; 123; 100; 99; 97; 57; 125].
Proof.
  pose proof NonVacuity.W8 as W. pose proof NonVacuity.W5 as W'. do 4 eexists.
  split; [exact W|]. split; [exact W'|]. split.
  - apply Exists_cons_tl. apply Exists_cons_hd. apply Exists_cons_hd. vm_compute. discriminate.
  - split; [exact (C11_ascii NonVacuity.isd NonVacuity.c_W8 _ _ _ _ eq_refl (NonVacuity.w_build _ _ _ _ _ _ _ W))|].
    split; [exact (C11_ascii NonVacuity.isd NonVacuity.c_W5 _ _ _ _ eq_refl (NonVacuity.w_build _ _ _ _ _ _ _ W'))|reflexivity].
Qed.
Print Assumptions C11_nonvacuous.
