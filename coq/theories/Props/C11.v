(* C11 *)
From Grex Require Import Base.Str.
