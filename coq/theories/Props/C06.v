(* C06 — verbose mode, capturing groups and escaping are presentation only. *)
From Grex Require Import Base.Str Model.Config Model.Cluster Model.Dfa Model.Expr Model.Print
  Model.Pipeline.
From Grex Require Import Proofs.Lang Proofs.Spec Proofs.PrintShape Proofs.PropsGlue.

(* c1 and c2 may differ in f_verbose, f_cap, f_esc, f_sur, f_colour, f_no_start, f_no_end (and
   the self-check outcomes may differ): the two expressions — which need not be equal, the
   construction reads f_esc — denote the same language, for any denotation of literals and
   classes *)
Theorem C06_language : forall (lit cls : cp -> cp -> Prop) c1 c2 db sc1 sc2 ws e1 e2,
  (f_digit c1 = f_digit c2 /\ f_non_digit c1 = f_non_digit c2 /\
   f_space c1 = f_space c2 /\ f_non_space c1 = f_non_space c2 /\
   f_word c1 = f_word c2 /\ f_non_word c1 = f_non_word c2 /\
   f_ci c1 = f_ci c2) /\
  f_rep c1 = f_rep c2 /\ min_rep c1 = min_rep c2 /\ min_len c1 = min_len c2 ->
  ws <> [] ->
  oracle_ok db (normalise c1 db ws) ->
  no_merge (grapheme_clusters c1 db (normalise c1 db ws)) = true ->
  Pipeline.final_expr c1 (grapheme_clusters c1 db (normalise c1 db ws)) sc1 = Some e1 ->
  Pipeline.final_expr c2 (grapheme_clusters c2 db (normalise c2 db ws)) sc2 = Some e2 ->
  forall u, (u <> [] \/ K4 (normalise c1 db ws) = false) ->
    (L_expr lit cls e1 u <-> L_expr lit cls e2 u).
Proof. exact construction_lang_presentation. Qed.

(* the presentation settings do not reach the grapheme clusters *)
Theorem C06_clusters : forall c1 c2 db tcs,
  (f_digit c1 = f_digit c2 /\ f_non_digit c1 = f_non_digit c2 /\
   f_space c1 = f_space c2 /\ f_non_space c1 = f_non_space c2 /\
   f_word c1 = f_word c2 /\ f_non_word c1 = f_non_word c2 /\
   f_ci c1 = f_ci c2) /\
  f_rep c1 = f_rep c2 /\ min_rep c1 = min_rep c2 /\ min_len c1 = min_len c2 ->
  grapheme_clusters c1 db tcs = grapheme_clusters c2 db tcs.
Proof. exact grapheme_clusters_presentation. Qed.

(* verbose mode: the output starts with the flag group (?x) / (?ix), unindented *)
Theorem C06_verbose_flag : forall isd c e,
  f_verbose c = true -> f_colour c = false ->
  starts_with (if f_ci c then [40; 63; 105; 120; 41]%N else [40; 63; 120; 41]%N)
              (regexp_str isd c e) = true.
Proof. exact regexp_str_verbose_flag. Qed.

(* with escaping enabled the output of the pipeline is pure ASCII *)
Theorem C06_ascii_when_escaped : forall isd c db sc ws s,
  f_esc c = true -> build isd c db sc ws = Some s -> Forall (fun x => (x < 128)%N) s.
Proof. exact build_ascii. Qed.

Theorem C06_ascii_when_escaped_expr : forall isd c d e,
  f_esc c = true -> expr_from c d = Some e -> Forall (fun x => (x < 128)%N) (regexp_str isd c e).
Proof. exact regexp_str_from_ascii. Qed.

Print Assumptions C06_language.
Print Assumptions C06_clusters.
Print Assumptions C06_verbose_flag.
Print Assumptions C06_ascii_when_escaped.
Print Assumptions C06_ascii_when_escaped_expr.
