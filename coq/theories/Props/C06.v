(* C06 — verbose mode, capturing groups and escaping are presentation only. *)
From Grex Require Import Base.Str Model.Config Model.Cluster Model.Dfa Model.Expr Model.Print
  Model.Pipeline.
From Grex Require Import Proofs.Lang Proofs.Spec Proofs.PrintShape Proofs.PropsGlue.
From Grex Require Import Engine.Syntax Engine.Parse Engine.Sem.
From Grex Require Import Proofs.PrintParseNum Proofs.PrintParseDefs Proofs.PrintParseXTok
  Proofs.PrintParseXPrint Proofs.PrintParseX Proofs.ScalarHay Proofs.EndToEndVerbose
  Proofs.PropsGlueE2E.

(* c1 and c2 may differ in f_verbose, f_cap, f_esc, f_sur, f_colour, f_no_start, f_no_end (and
   the self-check outcomes may differ): the two expressions — which need not be equal, the
   construction reads f_esc — denote the same language, for any denotation of literals and
   classes *)
Theorem C06_language : forall (lit cls : cp -> cp -> Prop) c1 c2 db sc1 sc2 ws e1 e2,
  (f_digit c1 = f_digit c2 /\ f_non_digit c1 = f_non_digit c2 /\
   f_space c1 = f_space c2 /\ f_non_space c1 = f_non_space c2 /\
   f_word c1 = f_word c2 /\ f_non_word c1 = f_non_word c2 /\
   f_ci c1 = f_ci c2) /\
  f_rep c1 = f_rep c2 /\ min_rep c1 = min_rep c2 /\ min_len c1 = min_len c2 ->
  ws <> [] ->
  oracle_ok db (normalise c1 db ws) ->
  no_merge (grapheme_clusters c1 db (normalise c1 db ws)) = true ->
  Pipeline.final_expr c1 (grapheme_clusters c1 db (normalise c1 db ws)) sc1 = Some e1 ->
  Pipeline.final_expr c2 (grapheme_clusters c2 db (normalise c2 db ws)) sc2 = Some e2 ->
  forall u, (u <> [] \/ K4 (normalise c1 db ws) = false) ->
    (L_expr lit cls e1 u <-> L_expr lit cls e2 u).
Proof. exact construction_lang_presentation. Qed.

(* the presentation settings do not reach the grapheme clusters *)
Theorem C06_clusters : forall c1 c2 db tcs,
  (f_digit c1 = f_digit c2 /\ f_non_digit c1 = f_non_digit c2 /\
   f_space c1 = f_space c2 /\ f_non_space c1 = f_non_space c2 /\
   f_word c1 = f_word c2 /\ f_non_word c1 = f_non_word c2 /\
   f_ci c1 = f_ci c2) /\
  f_rep c1 = f_rep c2 /\ min_rep c1 = min_rep c2 /\ min_len c1 = min_len c2 ->
  grapheme_clusters c1 db tcs = grapheme_clusters c2 db tcs.
Proof. exact grapheme_clusters_presentation. Qed.

(* verbose mode: the output starts with the flag group (?x) / (?ix), unindented *)
Theorem C06_verbose_flag : forall isd c e,
  f_verbose c = true -> f_colour c = false ->
  starts_with (if f_ci c then [40; 63; 105; 120; 41]%N else [40; 63; 120; 41]%N)
              (regexp_str isd c e) = true.
Proof. exact regexp_str_verbose_flag. Qed.

(* with escaping enabled the output of the pipeline is pure ASCII *)
Theorem C06_ascii_when_escaped : forall isd c db sc ws s,
  f_esc c = true -> build isd c db sc ws = Some s -> Forall (fun x => (x < 128)%N) s.
Proof. exact build_ascii. Qed.

Theorem C06_ascii_when_escaped_expr : forall isd c d e,
  f_esc c = true -> expr_from c d = Some e -> Forall (fun x => (x < 128)%N) (regexp_str isd c e).
Proof. exact regexp_str_from_ascii. Qed.

(* ---------- at the string level (notions: Props/C01.v (f)) ---------- *)

(* verbose mode is presentation only.  unv c is c with f_verbose := false
   (Proofs/PrintParseXPrint.v); wf_print_gen gap e: e is printable (Proofs/PrintParseDefs.v;
   gap says whether a class may contain both U+D7FF and U+E000).  The verbose and the
   non-verbose print of the same expression parse to the SAME AST; only the x flag differs *)
Theorem C06_verbose_same_ast_expr : forall isd is_ws c gap e,
  printable c -> f_verbose c = true -> wf_print_gen gap e -> ws_x is_ws ->
  exists a,
    parse is_ws (regexp_str isd c e) = Some ({| fl_i := f_ci c; fl_x := true |}, a) /\
    parse is_ws (regexp_str isd (unv c) e) = Some ({| fl_i := f_ci c; fl_x := false |}, a).
Proof. exact verbose_same_ast. Qed.

(* ... and so do the two outputs of build for the same inputs (the pipeline does not read
   f_verbose, the expressions of pipeline outputs are printable) *)
Theorem C06_verbose_same_ast : forall isd is_ws c db sc ws s,
  ws <> [] ->
  Forall (Forall scalar) ws ->
  (forall s0, In s0 ws -> Forall scalar (lower' db s0)) ->
  oracle_ok db (normalise c db ws) ->
  printable c -> f_verbose c = true -> ws_x is_ws ->
  build isd c db sc ws = Some s ->
  exists s0 a,
    build isd (unv c) db sc ws = Some s0
    /\ parse is_ws s = Some (mkF (f_ci c) true, a)
    /\ parse is_ws s0 = Some (mkF (f_ci c) false, a).
Proof. exact build_verbose_same_ast. Qed.

(* capturing groups: every group of the parsed output is capturing iff f_cap c
   (rast_sub x r: x occurs in r, Proofs/PropsGlueE2E.v) *)
Theorem C06_capture_groups : forall isd is_ws c db sc ws s,
  ws <> [] ->
  Forall (Forall scalar) ws ->
  (forall s0, In s0 ws -> Forall scalar (lower' db s0)) ->
  oracle_ok db (normalise c db ws) ->
  printable c -> (if f_verbose c then ws_x is_ws else ws_ok is_ws) ->
  build isd c db sc ws = Some s ->
  exists r, parse is_ws s = Some (mkF (f_ci c) (f_verbose c), r)
    /\ forall cap r', rast_sub (RGroup cap r') r -> cap = f_cap c.
Proof.
  intros isd is_ws c db sc ws s Hne Hsc Hlow Hok Hp Hws H.
  destruct (build_shape_any isd is_ws c db sc ws s Hne Hsc Hlow Hok Hp Hws H) as (r & Hr & Hg & _).
  exists r. split; [exact Hr|exact Hg].
Qed.

(* two printable configurations that differ only in f_verbose, f_cap, f_esc, f_no_start,
   f_no_end: both outputs parse, with the same i flag, and the parsed patterns match the same
   haystacks of scalar values (the empty one excepted under K4).  on_scalar lit c x :=
   lit c x /\ scalar x; the hypothesis on lit holds for lit_cs and lit_ci
   (ScalarHay.lit_cs_sur, lit_ci_sur) *)
Theorem C06_string_language : forall (lit cls : cp -> cp -> Prop) isd is_ws c1 c2 db sc1 sc2 ws s1 s2,
  (f_digit c1 = f_digit c2 /\ f_non_digit c1 = f_non_digit c2 /\
   f_space c1 = f_space c2 /\ f_non_space c1 = f_non_space c2 /\
   f_word c1 = f_word c2 /\ f_non_word c1 = f_non_word c2 /\
   f_ci c1 = f_ci c2) /\
  f_rep c1 = f_rep c2 /\ min_rep c1 = min_rep c2 /\ min_len c1 = min_len c2 ->
  ws <> [] ->
  Forall (Forall scalar) (normalise c1 db ws) ->
  oracle_ok db (normalise c1 db ws) ->
  printable c1 -> printable c2 -> ws_x is_ws ->
  (forall c0 x, surrogate c0 -> ~ on_scalar lit c0 x) ->
  no_merge (grapheme_clusters c1 db (normalise c1 db ws)) = true ->
  build isd c1 db sc1 ws = Some s1 ->
  build isd c2 db sc2 ws = Some s2 ->
  exists fl1 r1 fl2 r2,
    parse is_ws s1 = Some (fl1, r1) /\ parse is_ws s2 = Some (fl2, r2)
    /\ fl_i fl1 = fl_i fl2
    /\ forall u, Forall scalar u -> (u <> [] \/ K4 (normalise c1 db ws) = false) ->
         (L_rast lit cls r1 u <-> L_rast lit cls r2 u).
Proof. exact build_presentation_same_language. Qed.

Print Assumptions C06_language.
Print Assumptions C06_clusters.
Print Assumptions C06_verbose_flag.
Print Assumptions C06_ascii_when_escaped.
Print Assumptions C06_ascii_when_escaped_expr.
Print Assumptions C06_verbose_same_ast_expr.
Print Assumptions C06_verbose_same_ast.
Print Assumptions C06_capture_groups.
Print Assumptions C06_string_language.

(* NON-VACUITY (Proofs/NonVacuity.v, worlds W1 and W6p): C06_language applied to ["ab","ac"]
   built with and without verbose mode: the two expressions have the same language. *)
From Grex Require Proofs.NonVacuity.
Theorem C06_nonvacuous : exists e1 s1 e2 s2,
  NonVacuity.world_ok default_cfg NonVacuity.db1 SCPass1 NonVacuity.ws1 true e1 s1
  /\ NonVacuity.world_ok NonVacuity.c_W6p NonVacuity.db_W6p SCPass1 NonVacuity.ws_W6p true e2 s2
  /\ s1 <> s2
  /\ (forall (lit cls : cp -> cp -> Prop) u, L_expr lit cls e1 u <-> L_expr lit cls e2 u).
Proof.
  pose proof NonVacuity.W1 as W. pose proof NonVacuity.W6p as W'. do 4 eexists.
  split; [exact W|]. split; [exact W'|]. split; [discriminate|].
  intros lit cls u.
  exact (C06_language lit cls default_cfg NonVacuity.c_W6p NonVacuity.db1 SCPass1 SCPass1 NonVacuity.ws1 _ _
           (conj (conj eq_refl (conj eq_refl (conj eq_refl (conj eq_refl (conj eq_refl (conj eq_refl eq_refl))))))
                 (conj eq_refl (conj eq_refl eq_refl)))
           (NonVacuity.w_nonempty _ _ _ _ _ _ _ W) (NonVacuity.w_oracle _ _ _ _ _ _ _ W)
           (NonVacuity.w_no_merge _ _ _ _ _ _ _ W) (NonVacuity.w_expr _ _ _ _ _ _ _ W)
           (NonVacuity.w_expr _ _ _ _ _ _ _ W') u (or_intror NonVacuity.W1_K4)).
Qed.
Print Assumptions C06_nonvacuous.
