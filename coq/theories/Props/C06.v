(* C06 *)
From Grex Require Import Base.Str.
