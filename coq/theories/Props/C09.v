(* C09 — digit/word/space classification agrees with the regex crate on every code point.
   Table lemmas: decided by the critical-point sweep on the tables regenerated from the source
   (GrexTables.v, by the translator) and from the linked regex-syntax (OracleTables.v, by the
   dump), and lifted to ALL code points by sweep_sound.  Re-proved on every run. *)
From Grex Require Import Base.Str Base.Ranges Model.Config Model.Cluster.
From GrexGen Require Import GrexTables OracleTables.

(* the lookup functions of the model are table membership (closed ranges, linear scan) *)
Lemma lookup_digit c : is_digit c = mem grex_decimal c. Proof. reflexivity. Qed.
Lemma lookup_word c : is_word c = mem grex_word c. Proof. reflexivity. Qed.
Lemma lookup_space c : is_space c = mem grex_space c. Proof. reflexivity. Qed.

Lemma tables_digit : forall c, mem grex_decimal c = mem engine_d c.
Proof. apply (sweep_sound (BMem grex_decimal) (BMem engine_d)). vm_compute. reflexivity. Qed.
Lemma tables_word : forall c, mem grex_word c = mem engine_w c.
Proof. apply (sweep_sound (BMem grex_word) (BMem engine_w)). vm_compute. reflexivity. Qed.
Lemma tables_space : forall c, mem grex_space c = mem engine_s c.
Proof. apply (sweep_sound (BMem grex_space) (BMem engine_s)). vm_compute. reflexivity. Qed.

(* the negated classes of the engine are the complements on scalar values *)
Lemma negated_digit : forall c, is_scalar c = true -> mem engine_D c = negb (mem engine_d c).
Proof.
  intros c Hc.
  pose proof (sweep_sound (BAnd (BMem scalar_ranges) (BMem engine_D))
                          (BAnd (BMem scalar_ranges) (BNot (BMem engine_d)))) as H.
  specialize (H ltac:(vm_compute; reflexivity) c). cbn [beval] in H.
  unfold is_scalar in Hc. rewrite Hc in H. exact H.
Qed.
Lemma negated_word : forall c, is_scalar c = true -> mem engine_W c = negb (mem engine_w c).
Proof.
  intros c Hc.
  pose proof (sweep_sound (BAnd (BMem scalar_ranges) (BMem engine_W))
                          (BAnd (BMem scalar_ranges) (BNot (BMem engine_w)))) as H.
  specialize (H ltac:(vm_compute; reflexivity) c). cbn [beval] in H.
  unfold is_scalar in Hc. rewrite Hc in H. exact H.
Qed.
Lemma negated_space : forall c, is_scalar c = true -> mem engine_S c = negb (mem engine_s c).
Proof.
  intros c Hc.
  pose proof (sweep_sound (BAnd (BMem scalar_ranges) (BMem engine_S))
                          (BAnd (BMem scalar_ranges) (BNot (BMem engine_s)))) as H.
  specialize (H ltac:(vm_compute; reflexivity) c). cbn [beval] in H.
  unfold is_scalar in Hc. rewrite Hc in H. exact H.
Qed.

(* the translator's reading of the tables equals what the compiled lookup functions answer
   (dumped from the binary for every scalar): validates the translator on every run *)
Lemma translator_digit : forall c, mem grex_decimal c = mem compiled_is_digit c.
Proof. apply (sweep_sound (BMem grex_decimal) (BMem compiled_is_digit)). vm_compute. reflexivity. Qed.
Lemma translator_word : forall c, mem grex_word c = mem compiled_is_word c.
Proof. apply (sweep_sound (BMem grex_word) (BMem compiled_is_word)). vm_compute. reflexivity. Qed.
Lemma translator_space : forall c, mem grex_space c = mem compiled_is_space c.
Proof. apply (sweep_sound (BMem grex_space) (BMem compiled_is_space)). vm_compute. reflexivity. Qed.

(* the documented conversion: first match of d, w, s, D, W, S judged by the ENGINE's classes *)
Definition spec_token (c : cfg) (x : cp) : str :=
  if f_digit c && mem engine_d x then [92; 100]%N
  else if f_word c && mem engine_w x then [92; 119]%N
  else if f_space c && mem engine_s x then [92; 115]%N
  else if f_non_digit c && negb (mem engine_d x) then [92; 68]%N
  else if f_non_word c && negb (mem engine_w x) then [92; 87]%N
  else if f_non_space c && negb (mem engine_s x) then [92; 83]%N
  else [x].

(* what the engine accepts for a token *)
Definition tok_accepts (tok : str) (x : cp) : bool :=
  if str_eqb tok [92; 100]%N then mem engine_d x
  else if str_eqb tok [92; 119]%N then mem engine_w x
  else if str_eqb tok [92; 115]%N then mem engine_s x
  else if str_eqb tok [92; 68]%N then mem engine_D x
  else if str_eqb tok [92; 87]%N then mem engine_W x
  else if str_eqb tok [92; 83]%N then mem engine_S x
  else str_eqb tok [x].

Lemma token_spec : forall c x, class_token c class_chain x = spec_token c x.
Proof.
  intros c x. unfold class_chain, spec_token. cbn [class_token flag_of table_of].
  rewrite !lookup_digit, !lookup_word, !lookup_space, !tables_digit, !tables_word, !tables_space.
  reflexivity.
Qed.

Lemma N_eqb_refl' x : N.eqb x x = true. Proof. apply N.eqb_refl. Qed.

Lemma ta_d x : tok_accepts [92; 100]%N x = mem engine_d x. Proof. reflexivity. Qed.
Lemma ta_w x : tok_accepts [92; 119]%N x = mem engine_w x. Proof. reflexivity. Qed.
Lemma ta_s x : tok_accepts [92; 115]%N x = mem engine_s x. Proof. reflexivity. Qed.
Lemma ta_D x : tok_accepts [92; 68]%N x = mem engine_D x. Proof. reflexivity. Qed.
Lemma ta_W x : tok_accepts [92; 87]%N x = mem engine_W x. Proof. reflexivity. Qed.
Lemma ta_S x : tok_accepts [92; 83]%N x = mem engine_S x. Proof. reflexivity. Qed.
Lemma ta_lit x : tok_accepts [x] x = true.
Proof.
  unfold tok_accepts.
  assert (Hx : forall a, str_eqb [x] [92; a]%N = false) by (intros; cbn [str_eqb]; rewrite andb_false_r; reflexivity).
  rewrite !Hx. cbn [str_eqb]. rewrite N.eqb_refl. reflexivity.
Qed.

Lemma conversion_accepts : forall c x, is_scalar x = true -> tok_accepts (class_token c class_chain x) x = true.
Proof.
  intros c x Hs. rewrite token_spec. unfold spec_token.
  destruct (f_digit c && mem engine_d x) eqn:E1.
  { apply andb_true_iff in E1 as [_ E1]. rewrite ta_d. exact E1. }
  destruct (f_word c && mem engine_w x) eqn:E2.
  { apply andb_true_iff in E2 as [_ E2]. rewrite ta_w. exact E2. }
  destruct (f_space c && mem engine_s x) eqn:E3.
  { apply andb_true_iff in E3 as [_ E3]. rewrite ta_s. exact E3. }
  destruct (f_non_digit c && negb (mem engine_d x)) eqn:E4.
  { apply andb_true_iff in E4 as [_ E4]. rewrite ta_D, negated_digit by exact Hs. exact E4. }
  destruct (f_non_word c && negb (mem engine_w x)) eqn:E5.
  { apply andb_true_iff in E5 as [_ E5]. rewrite ta_W, negated_word by exact Hs. exact E5. }
  destruct (f_non_space c && negb (mem engine_s x)) eqn:E6.
  { apply andb_true_iff in E6 as [_ E6]. rewrite ta_S, negated_space by exact Hs. exact E6. }
  apply ta_lit.
Qed.

(* ---------- property theorems ---------- *)
Theorem C09_digit : forall c, is_digit c = mem engine_d c.
Proof. intro c. rewrite lookup_digit. exact (tables_digit c). Qed.
Theorem C09_word : forall c, is_word c = mem engine_w c.
Proof. intro c. rewrite lookup_word. exact (tables_word c). Qed.
Theorem C09_space : forall c, is_space c = mem engine_s c.
Proof. intro c. rewrite lookup_space. exact (tables_space c). Qed.
Theorem C09_negated : forall c, is_scalar c = true ->
  mem engine_D c = negb (mem engine_d c) /\ mem engine_W c = negb (mem engine_w c) /\ mem engine_S c = negb (mem engine_s c).
Proof. intros c H. split; [exact (negated_digit c H)|split; [exact (negated_word c H)|exact (negated_space c H)]]. Qed.
Theorem C09_token_spec : forall cfg c, class_token cfg class_chain c = spec_token cfg c.
Proof. exact token_spec. Qed.
Theorem C09_conversion : forall cfg c, is_scalar c = true -> tok_accepts (class_token cfg class_chain c) c = true.
Proof. exact conversion_accepts. Qed.
Theorem C09_translator : forall c,
  mem grex_decimal c = mem compiled_is_digit c /\ mem grex_word c = mem compiled_is_word c /\ mem grex_space c = mem compiled_is_space c.
Proof. intro c. split; [exact (translator_digit c)|split; [exact (translator_word c)|exact (translator_space c)]]. Qed.

Print Assumptions C09_digit.
Print Assumptions C09_word.
Print Assumptions C09_space.
Print Assumptions C09_negated.
Print Assumptions C09_token_spec.
Print Assumptions C09_conversion.
Print Assumptions C09_translator.
