(* C16 *)
From Grex Require Import Base.Str.
