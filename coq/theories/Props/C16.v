(* C16 — every stage of the construction preserves the language, and minimisation is minimal.

   L_clusters: the union of the cluster languages; L_dfa: the language of an automaton whose
   edges are labelled with graphemes; L_expr: the language of an expression (Proofs/Lang.v).
   Lw_from d s: the right language of state s over grapheme LABELS (QuotientLang.v). *)
From Grex Require Import Base.Str Model.Config Model.Cluster Model.Dfa Model.Expr Model.Pipeline.
From Grex Require Import Proofs.Lang Proofs.TrieLang Proofs.QuotientLang Proofs.MinimizeLang
  Proofs.HopcroftCoarsest Proofs.PropsGlue.
From Grex Require Proofs.ElimLang.

(* trie: exactly the cluster languages when no edge is merged ... *)
Theorem C16_trie : forall (lit cls : cp -> cp -> Prop) (cs : list cluster) d,
  Forall wf_cluster cs -> Forall (Forall uniform_g) cs ->
  trie_of cs = Some d -> no_merge cs = true ->
  leq (L_dfa lit cls d) (L_clusters lit cls cs).
Proof. exact trie_lang. Qed.

(* ... and at least the cluster languages in any case *)
Theorem C16_trie_sup : forall (lit cls : cp -> cp -> Prop) (cs : list cluster) d,
  Forall wf_cluster cs -> Forall (Forall uniform_g) cs ->
  trie_of cs = Some d ->
  lsub (L_clusters lit cls cs) (L_dfa lit cls d).
Proof. exact trie_lang_sup. Qed.

(* minimisation of a trie: same language on non-empty strings, nothing added; the empty string
   is kept when the root is not final or shares its block (K4 otherwise) *)
Theorem C16_min_lang : forall (lit cls : cp -> cp -> Prop) (cs : list cluster) t,
  Forall wf_cluster cs -> Forall (Forall uniform_g) cs -> no_merge cs = true ->
  trie_of cs = Some t ->
  exists d' p,
    partition_of t = Some p /\ recreate_graph t p = Some d' /\ minimize t = Some d'
    /\ wf_dfa d'
    /\ (exists rank : nat -> nat, forall e, In e (d_edges d') -> rank (e_dst e) < rank (e_src e))
    /\ (forall u, u <> [] -> (L_dfa lit cls d' u <-> L_dfa lit cls t u))
    /\ (L_dfa lit cls d' [] -> L_dfa lit cls t [])
    /\ (eps_safe t p -> leq (L_dfa lit cls d') (L_dfa lit cls t))
    /\ (~ In (d_init t) (d_finals t) -> leq (L_dfa lit cls d') (L_dfa lit cls t))
    /\ (forall s, s < d_n t -> s <> d_init t ->
          block_index s p 0 = block_index (d_init t) p 0 -> leq (L_dfa lit cls d') (L_dfa lit cls t)).
Proof. exact minimize_trie_lang. Qed.

(* the minimised trie is deterministic and no two states have the same right language *)
Theorem C16_min_minimal : forall (cs : list cluster) t d',
  Forall wf_cluster cs -> Forall (Forall uniform_g) cs -> cs <> [] ->
  no_merge cs = true -> trie_of cs = Some t -> minimize t = Some d' ->
  (forall p, partition_of t = Some p -> eps_safe t p) ->
  deterministic d'
  /\ (forall i j, i < d_n d' -> j < d_n d' ->
        (forall w, Lw_from d' i w <-> Lw_from d' j w) -> i = j).
Proof. exact trie_minimize_minimal. Qed.

(* Expression::from (state elimination) on an acyclic automaton with a non-empty language *)
Theorem C16_elim : forall (lit cls : cp -> cp -> Prop) c d e,
  wf_dfa d -> ElimLang.acyclic d -> (exists u, L_dfa lit cls d u) ->
  expr_from c d = Some e -> leq (L_expr lit cls e) (L_dfa lit cls d).
Proof. exact expr_from_lang_closed. Qed.

(* ... and in general: an automaton with the empty language is mapped to the empty literal *)
Theorem C16_elim_gen : forall (lit cls : cp -> cp -> Prop) c d e,
  wf_dfa d -> ElimLang.acyclic d -> expr_from c d = Some e ->
  leq (L_expr lit cls e) (L_dfa lit cls d)
  \/ (e = ELit [] /\ forall u, ~ L_dfa lit cls d u).
Proof. exact expr_from_lang_gen_closed. Qed.

(* the verified checker that the harness runs on the implementation's automata: a partition
   accepted by stableb is a bisimulation partition, and the quotient by such a partition has
   the same language on non-empty strings and adds nothing *)
Theorem C16_checker_sound : forall (lit cls : cp -> cp -> Prop) d d' p,
  stableb d p = true ->
  stable d p
  /\ (recreate_graph d p = Some d' ->
      lsub (L_dfa lit cls d') (L_dfa lit cls d)
      /\ (wf_dfa d -> no_parallel d ->
          forall u, u <> [] -> (L_dfa lit cls d' u <-> L_dfa lit cls d u))).
Proof.
  intros lit cls d d' p H. split; [exact (stableb_spec d p H)|]. intros Hr. split.
  - exact (quotient_lang_sub lit cls d d' p H Hr).
  - intros Hw Hn. exact (quotient_lang_nonempty lit cls d d' p Hw Hn H Hr).
Qed.

(* the verified minimality checker: no two states with the same right language *)
Theorem C16_min_checkb : forall d, wf_dfa d -> min_checkb d = true ->
  forall i j, i < d_n d -> j < d_n d ->
    (forall w, Lw_from d i w <-> Lw_from d j w) -> i = j.
Proof. exact min_checkb_spec. Qed.

Print Assumptions C16_trie.
Print Assumptions C16_trie_sup.
Print Assumptions C16_min_lang.
Print Assumptions C16_min_minimal.
Print Assumptions C16_elim.
Print Assumptions C16_elim_gen.
Print Assumptions C16_checker_sound.
Print Assumptions C16_min_checkb.
