(* C16 — every stage of the construction preserves the language, and minimisation is minimal.

   L_clusters: the union of the cluster languages; L_dfa: the language of an automaton whose
   edges are labelled with graphemes; L_expr: the language of an expression (Proofs/Lang.v).
   Lw_from d s: the right language of state s over grapheme LABELS (QuotientLang.v). *)
From Grex Require Import Base.Str Model.Config Model.Cluster Model.Dfa Model.Expr Model.Pipeline.
From Grex Require Import Proofs.Lang Proofs.TrieLang Proofs.QuotientLang Proofs.MinimizeLang
  Proofs.HopcroftCoarsest Proofs.PropsGlue.
From Grex Require Proofs.ElimLang Proofs.HopcroftInv Proofs.MergeSound Proofs.HopcroftSym Proofs.HopcroftAny
  Proofs.MergeLang.
From Grex Require Import Model.Print Engine.Syntax Engine.Parse Engine.Sem Engine.ExecCi.
From Grex Require Import Proofs.FoldTables Proofs.EngineDen Proofs.PrintParseNum Proofs.PrintParseDefs
  Proofs.PrintParseXTok Proofs.PrintParse Proofs.PrintParseX Proofs.ExecCiSound Proofs.ScalarHay
  Proofs.Spec Proofs.PipelinePrintable.

(* trie: exactly the cluster languages when no edge is merged ... *)
Theorem C16_trie : forall (lit cls : cp -> cp -> Prop) (cs : list cluster) d,
  Forall wf_cluster cs -> Forall (Forall uniform_g) cs ->
  trie_of cs = Some d -> no_merge cs = true ->
  leq (L_dfa lit cls d) (L_clusters lit cls cs).
Proof. exact trie_lang. Qed.

(* ... and at least the cluster languages in any case *)
Theorem C16_trie_sup : forall (lit cls : cp -> cp -> Prop) (cs : list cluster) d,
  Forall wf_cluster cs -> Forall (Forall uniform_g) cs ->
  trie_of cs = Some d ->
  lsub (L_clusters lit cls cs) (L_dfa lit cls d).
Proof. exact trie_lang_sup. Qed.

(* minimisation of a trie: same language on non-empty strings, nothing added; the empty string
   is kept when the root is not final or shares its block (K4 otherwise) *)
Theorem C16_min_lang : forall (lit cls : cp -> cp -> Prop) (cs : list cluster) t,
  Forall wf_cluster cs -> Forall (Forall uniform_g) cs -> no_merge cs = true ->
  trie_of cs = Some t ->
  exists d' p,
    partition_of t = Some p /\ recreate_graph t p = Some d' /\ minimize t = Some d'
    /\ wf_dfa d'
    /\ (exists rank : nat -> nat, forall e, In e (d_edges d') -> rank (e_dst e) < rank (e_src e))
    /\ (forall u, u <> [] -> (L_dfa lit cls d' u <-> L_dfa lit cls t u))
    /\ (L_dfa lit cls d' [] -> L_dfa lit cls t [])
    /\ (eps_safe t p -> leq (L_dfa lit cls d') (L_dfa lit cls t))
    /\ (~ In (d_init t) (d_finals t) -> leq (L_dfa lit cls d') (L_dfa lit cls t))
    /\ (forall s, s < d_n t -> s <> d_init t ->
          block_index s p 0 = block_index (d_init t) p 0 -> leq (L_dfa lit cls d') (L_dfa lit cls t)).
Proof. exact minimize_trie_lang. Qed.

(* the minimised trie is deterministic and no two states have the same right language *)
Theorem C16_min_minimal : forall (cs : list cluster) t d',
  Forall wf_cluster cs -> Forall (Forall uniform_g) cs -> cs <> [] ->
  no_merge cs = true -> trie_of cs = Some t -> minimize t = Some d' ->
  (forall p, partition_of t = Some p -> eps_safe t p) ->
  deterministic d'
  /\ (forall i j, i < d_n d' -> j < d_n d' ->
        (forall w, Lw_from d' i w <-> Lw_from d' j w) -> i = j).
Proof. exact trie_minimize_minimal. Qed.

(* Expression::from (state elimination) on an acyclic automaton with a non-empty language *)
Theorem C16_elim : forall (lit cls : cp -> cp -> Prop) c d e,
  wf_dfa d -> ElimLang.acyclic d -> (exists u, L_dfa lit cls d u) ->
  expr_from c d = Some e -> leq (L_expr lit cls e) (L_dfa lit cls d).
Proof. exact expr_from_lang_closed. Qed.

(* ... and in general: an automaton with the empty language is mapped to the empty literal *)
Theorem C16_elim_gen : forall (lit cls : cp -> cp -> Prop) c d e,
  wf_dfa d -> ElimLang.acyclic d -> expr_from c d = Some e ->
  leq (L_expr lit cls e) (L_dfa lit cls d)
  \/ (e = ELit [] /\ forall u, ~ L_dfa lit cls d u).
Proof. exact expr_from_lang_gen_closed. Qed.

(* the verified checker that the harness runs on the implementation's automata: a partition
   accepted by stableb is a bisimulation partition, and the quotient by such a partition has
   the same language on non-empty strings and adds nothing *)
Theorem C16_checker_sound : forall (lit cls : cp -> cp -> Prop) d d' p,
  stableb d p = true ->
  stable d p
  /\ (recreate_graph d p = Some d' ->
      lsub (L_dfa lit cls d') (L_dfa lit cls d)
      /\ (wf_dfa d -> no_parallel d ->
          forall u, u <> [] -> (L_dfa lit cls d' u <-> L_dfa lit cls d u))).
Proof.
  intros lit cls d d' p H. split; [exact (stableb_spec d p H)|]. intros Hr. split.
  - exact (quotient_lang_sub lit cls d d' p H Hr).
  - intros Hw Hn. exact (quotient_lang_nonempty lit cls d d' p Hw Hn H Hr).
Qed.

(* the one-sided checker for quotients of automata whose edge labels are RANGES (tries with
   merged edges): MergeSound.qcoverb d p accepts when finality is uniform inside every block
   of p and every symbol (characters, count) of every edge of d is covered by an edge that
   recreate_graph copies from the representative (smallest member) of the block of the source,
   into the block of the target.  Then the quotient accepts every non-empty string of d; no
   hypothesis on d (no trie shape, no determinism, no stability).  The empty string is kept
   as well when the known "final root without incoming edge" defect does not bite. *)
Theorem C16_quotient_cover_sound : forall (lit cls : cp -> cp -> Prop) d d' p,
  MergeSound.qcoverb d p = true -> recreate_graph d p = Some d' ->
  forall u, u <> [] -> L_dfa lit cls d u -> L_dfa lit cls d' u.
Proof. exact MergeSound.qcover_lang_nonempty. Qed.

Theorem C16_quotient_cover_sound_eps : forall (lit cls : cp -> cp -> Prop) d d' p,
  wf_dfa d -> MergeSound.qcoverb d p = true -> recreate_graph d p = Some d' ->
  eps_safeb d p = true ->
  lsub (L_dfa lit cls d) (L_dfa lit cls d').
Proof. exact MergeSound.qcover_lang_sub_b. Qed.

(* the acyclicity test used next to it (Expression::from is proved on acyclic automata) *)
Theorem C16_acyclicb_sound : forall d, MergeSound.acyclicb d = true -> ElimLang.acyclic d.
Proof. exact MergeSound.acyclicb_spec. Qed.

(* Hopcroft as implemented, on tries WITH merged edges, when no state has two out-edges with
   the same characters and overlapping ranges to different states (HopcroftSym.sym_detb): the
   partition is stable for every alphabet symbol c, where a c-edge is an edge whose label
   contains c *)
Theorem C16_hopcroft_stable_symdet : forall (cs : list cluster) t p,
  Forall wf_cluster cs -> Forall (Forall uniform_g) cs ->
  trie_of cs = Some t -> HopcroftSym.sym_detb t = true -> partition_of t = Some p ->
  forall c, In c (d_alphabet t) ->
  forall s s0 s', HopcroftInv.same p s s0 -> HopcroftInv.cedge (d_edges t) c s s' ->
  exists t', HopcroftInv.cedge (d_edges t) c s0 t' /\ HopcroftInv.same p s' t'.
Proof.
  intros cs t p Hw Hu Ht Hd Hp.
  exact (HopcroftSym.partition_stable_cedge_sym t p
           (HopcroftSym.trie_sym_of_trie cs t Hw Hu Ht Hd) Hp).
Qed.

(* ... and with no hypothesis on determinism at all (both halves of a split block are pushed
   on the work-list of minimize) *)
Theorem C16_hopcroft_stable : forall (cs : list cluster) t p,
  Forall wf_cluster cs -> trie_of cs = Some t -> partition_of t = Some p ->
  forall c, In c (d_alphabet t) ->
  forall s s0 s', HopcroftInv.same p s s0 -> HopcroftInv.cedge (d_edges t) c s s' ->
  exists t', HopcroftInv.cedge (d_edges t) c s0 t' /\ HopcroftInv.same p s' t'.
Proof. exact HopcroftAny.trie_sym_stable. Qed.

(* minimisation of ANY trie of uniform clusters, merged edges or not: the result is well
   formed, acyclic and accepts every non-empty string of the trie (nothing is claimed about
   the converse inclusion: see C16_min_lang for no_merge tries) *)
Theorem C16_min_sound_with_merge : forall (lit cls : cp -> cp -> Prop) (cs : list cluster) t,
  Forall wf_cluster cs -> Forall (Forall uniform_g) cs -> trie_of cs = Some t ->
  exists d' p,
    partition_of t = Some p /\ recreate_graph t p = Some d' /\ minimize t = Some d'
    /\ wf_dfa d' /\ ElimLang.acyclic d'
    /\ (forall u, u <> [] -> L_dfa lit cls t u -> L_dfa lit cls d' u)
    /\ (eps_safe t p -> lsub (L_dfa lit cls t) (L_dfa lit cls d')).
Proof. exact HopcroftAny.minimize_trie_sound. Qed.

(* minimisation preserves the language of EVERY trie of uniform clusters, merged (widened)
   edges or not: exactly on non-empty strings, nothing is added, and the empty string is kept
   when the root is not final or shares its block (K4 otherwise).  The twin of C16_min_lang
   without no_merge: an edge of the quotient is an edge of a representative; a word read with
   count k inside its range is the alphabet symbol (characters, k), and the partition is
   stable for every alphabet symbol (C16_hopcroft_stable), so every member of the block reads
   it too *)
Theorem C16_min_lang_with_merge : forall (lit cls : cp -> cp -> Prop) (cs : list cluster) t,
  Forall wf_cluster cs -> Forall (Forall uniform_g) cs -> trie_of cs = Some t ->
  exists d' p,
    partition_of t = Some p /\ recreate_graph t p = Some d' /\ minimize t = Some d'
    /\ wf_dfa d' /\ ElimLang.acyclic d'
    /\ (forall u, u <> [] -> (L_dfa lit cls d' u <-> L_dfa lit cls t u))
    /\ lsub (L_dfa lit cls d') (L_dfa lit cls t)
    /\ (eps_safe t p -> leq (L_dfa lit cls d') (L_dfa lit cls t))
    /\ (~ In (d_init t) (d_finals t) -> leq (L_dfa lit cls d') (L_dfa lit cls t))
    /\ (forall s, s < d_n t -> s <> d_init t ->
          block_index s p 0 = block_index (d_init t) p 0 -> leq (L_dfa lit cls d') (L_dfa lit cls t)).
Proof. exact MergeLang.minimize_trie_lang_eq. Qed.

(* K1 LOCATED AT THE TRIE STAGE.  Whatever the self-check outcome, the final expression
   denotes a sub-language of the language of the pipeline's trie; on the two outcomes that go
   through Expression::from (everything but the plain alternation returned for SCFail with
   both anchors disabled) it denotes exactly the trie language (K4 proviso for the empty
   string), and for SCPass2 with both anchors disabled without proviso.  No no_merge: any
   over-matching of the final pattern is already present in the (widened) trie *)
Theorem C16_final_within_trie : forall (lit cls : cp -> cp -> Prop) c db sc ws e t,
  ws <> [] ->
  oracle_ok db (normalise c db ws) ->
  trie_of (grapheme_clusters c db (normalise c db ws)) = Some t ->
  Pipeline.final_expr c (grapheme_clusters c db (normalise c db ws)) sc = Some e ->
  (forall u, L_expr lit cls e u -> L_dfa lit cls t u)
  /\ (~ (f_no_start c && f_no_end c = true /\ sc = SCFail) ->
      forall u, (u <> [] \/ K4 (normalise c db ws) = false) ->
        (L_expr lit cls e u <-> L_dfa lit cls t u))
  /\ (f_no_start c && f_no_end c = true -> sc = SCPass2 ->
      forall u, L_expr lit cls e u <-> L_dfa lit cls t u).
Proof. exact MergeLang.final_expr_lang_trie. Qed.

(* ... between the specification and the trie language *)
Theorem C16_final_sandwich : forall (lit cls : cp -> cp -> Prop) c db sc ws e t,
  ws <> [] ->
  oracle_ok db (normalise c db ws) ->
  trie_of (grapheme_clusters c db (normalise c db ws)) = Some t ->
  Pipeline.final_expr c (grapheme_clusters c db (normalise c db ws)) sc = Some e ->
  (forall u, Spec lit cls c db ws u -> (u <> [] \/ K4 (normalise c db ws) = false) ->
     L_expr lit cls e u)
  /\ (forall u, L_expr lit cls e u -> L_dfa lit cls t u).
Proof. exact MergeLang.final_expr_sandwich. Qed.

(* non-vacuity, on an input whose trie is merged: "abc" "abbd" with repetition conversion
   (clusters a b c / a b{2} d; the edge b is widened to b{1,2} and shared by both branches).
   The final expression ab{1,2}[cd] accepts "abd", which is not specified, and the trie
   accepts it already *)
Example C16_K1_located :
  no_merge (grapheme_clusters MergeLang.Sanity.c_rep []
              (normalise MergeLang.Sanity.c_rep [] MergeLang.Sanity.ws1)) = false
  /\ trie_of (grapheme_clusters MergeLang.Sanity.c_rep []
                (normalise MergeLang.Sanity.c_rep [] MergeLang.Sanity.ws1))
     = Some MergeLang.Sanity.t1
  /\ (forall sc, Pipeline.final_expr MergeLang.Sanity.c_rep
                   (grapheme_clusters MergeLang.Sanity.c_rep []
                      (normalise MergeLang.Sanity.c_rep [] MergeLang.Sanity.ws1)) sc
                 = Some MergeLang.Sanity.e1)
  /\ L_expr eq eq MergeLang.Sanity.e1 [97; 98; 100]%N
  /\ ~ Spec eq eq MergeLang.Sanity.c_rep [] MergeLang.Sanity.ws1 [97; 98; 100]%N
  /\ L_dfa eq eq MergeLang.Sanity.t1 [97; 98; 100]%N.
Proof.
  exact (conj MergeLang.Sanity.k1_merge (conj MergeLang.Sanity.k1_trie
          (conj MergeLang.Sanity.k1_expr (conj MergeLang.Sanity.k1_over
            (conj MergeLang.Sanity.k1_not_spec MergeLang.Sanity.k1_in_trie))))).
Qed.

(* the verified minimality checker: no two states with the same right language *)
Theorem C16_min_checkb : forall d, wf_dfa d -> min_checkb d = true ->
  forall i j, i < d_n d -> j < d_n d ->
    (forall w, Lw_from d i w <-> Lw_from d j w) -> i = j.
Proof. exact min_checkb_spec. Qed.

(* ---------- the print stage, and the engine model ---------- *)

(* printing preserves the language: the printed pattern of a printable expression is accepted
   by the model of the regex crate's parser (Engine/Parse.v) and the parsed AST matches
   (Engine/Sem.v) exactly the language of the expression.  printable c: f_colour c = false /\
   f_sur c = false; wf_print e := wf_print_gen False e: the expression is printable and no
   class contains both U+D7FF and U+E000 (C16_pipeline_printable_nogap); ws_ok is_ws: the
   parser's whitespace test rejects 0-9 , } *)
Theorem C16_print : forall (lit cls : cp -> cp -> Prop) isd is_ws c e,
  printable c -> f_verbose c = false -> wf_print e -> ws_ok is_ws ->
  exists fl r, parse is_ws (regexp_str isd c e) = Some (fl, r)
    /\ fl_i fl = f_ci c /\ fl_x fl = false
    /\ (forall s, L_rast lit cls r s <-> L_expr lit cls e s).
Proof. exact print_parse_lang. Qed.

(* verbose mode, under the x flag; ws_x is_ws: is_ws is the engine's whitespace table.  gap:
   whether a class of e may contain both U+D7FF and U+E000 (its printed range then contains
   the surrogates, which must denote nothing) *)
Theorem C16_print_verbose : forall (lit cls : cp -> cp -> Prop) isd is_ws c (gap : Prop) e,
  printable c -> f_verbose c = true -> wf_print_gen gap e -> ws_x is_ws ->
  (gap -> forall c0 x, surrogate c0 -> ~ lit c0 x) ->
  exists fl r, parse is_ws (regexp_str isd c e) = Some (fl, r)
    /\ fl_i fl = f_ci c /\ fl_x fl = true
    /\ (forall s, L_rast lit cls r s <-> L_expr lit cls e s).
Proof. exact print_parse_lang_verbose. Qed.

(* the AST that the printed pattern parses to is top_rast c e (Proofs/PrintParseDefs.v), in
   both modes; gap: whether a class of e may contain both U+D7FF and U+E000 *)
Theorem C16_print_ast : forall isd is_ws c,
  printable c -> f_verbose c = false -> ws_ok is_ws ->
  forall (gap : Prop) e, wf_print_gen gap e ->
  parse is_ws (regexp_str isd c e) = Some (mkF (f_ci c) false, top_rast c e).
Proof. exact print_parse. Qed.

Theorem C16_print_ast_verbose : forall isd is_ws c (gap : Prop) e,
  printable c -> f_verbose c = true -> wf_print_gen gap e -> ws_x is_ws ->
  parse is_ws (regexp_str isd c e) = Some (mkF (f_ci c) true, top_rast c e).
Proof. exact print_parse_verbose. Qed.

(* ... and it has the language of the expression; when a class may straddle the surrogate gap
   its printed range contains the surrogates, which must then denote nothing *)
Theorem C16_print_ast_lang : forall c, printable c ->
  forall (gap : Prop) (lit cls : cp -> cp -> Prop),
  (gap -> forall c0 x, surrogate c0 -> ~ lit c0 x) ->
  forall e, wf_print_gen gap e ->
  forall s, L_rast lit cls (top_rast c e) s <-> L_expr lit cls e s.
Proof. exact top_rast_lang. Qed.

(* the expressions of the pipeline are printable, for scalar-valued test cases *)
Theorem C16_pipeline_printable : forall c db sc ws e,
  ws <> [] ->
  Forall (Forall scalar) ws ->
  (forall s, In s ws -> Forall scalar (lower' db s)) ->
  oracle_ok db (normalise c db ws) ->
  Pipeline.final_expr c (grapheme_clusters c db (normalise c db ws)) sc = Some e ->
  wf_print_gen True e.
Proof. exact final_expr_wf_print. Qed.

(* ... and no class straddles the surrogate gap when U+D7FF or U+E000 occurs in no
   normalised test case *)
Theorem C16_pipeline_printable_nogap : forall c db sc ws e,
  ws <> [] ->
  Forall (Forall scalar) ws ->
  (forall s, In s ws -> Forall scalar (lower' db s)) ->
  oracle_ok db (normalise c db ws) ->
  (Forall (fun s => ~ In 55295%N s) (normalise c db ws)
   \/ Forall (fun s => ~ In 57344%N s) (normalise c db ws)) ->
  Pipeline.final_expr c (grapheme_clusters c db (normalise c db ws)) sc = Some e ->
  wf_print e.
Proof. exact final_expr_wf_print_inputs. Qed.

(* the whitespace table of the model satisfies ws_x *)
Theorem C16_ws_x_std : ws_x VerboseWs.is_ws.
Proof. exact ws_x_std. Qed.

(* the executable matcher that is extracted and run against the real regex crate
   (Engine/ExecCi.v) decides the matching relation: ci is the i flag of the parsed pattern;
   lit_engine ci is equality / simple case folding; ExecCi.cls_engine the engine's Perl
   classes *)
Theorem C16_engine_exec : forall ci h r,
  matches_whole_engine ci h r = true <-> L_rast (lit_engine ci) ExecCi.cls_engine r h.
Proof. exact matches_whole_engine_spec. Qed.

(* ... that is, at the denotations used by the property theorems *)
Theorem C16_engine_exec_den : forall ci h r,
  matches_whole_engine ci h r = true
  <-> L_rast (if ci then lit_ci else lit_cs) EngineDen.cls_engine r h.
Proof. exact matches_whole_engine_den. Qed.

(* the search of the extracted matcher: the least start with a match, and ALL ends from it *)
Theorem C16_engine_find : forall ci h r i js,
  find_leftmost_engine ci h r = Some (i, js) ->
  i <= length h /\ js <> [] /\ NoDup js
  /\ (forall j, In j js <-> m (lit_engine ci) ExecCi.cls_engine h r i j).
Proof. exact find_leftmost_engine_ends. Qed.

Print Assumptions C16_trie.
Print Assumptions C16_trie_sup.
Print Assumptions C16_min_lang.
Print Assumptions C16_min_minimal.
Print Assumptions C16_elim.
Print Assumptions C16_elim_gen.
Print Assumptions C16_checker_sound.
Print Assumptions C16_quotient_cover_sound.
Print Assumptions C16_quotient_cover_sound_eps.
Print Assumptions C16_acyclicb_sound.
Print Assumptions C16_hopcroft_stable_symdet.
Print Assumptions C16_hopcroft_stable.
Print Assumptions C16_min_sound_with_merge.
Print Assumptions C16_min_lang_with_merge.
Print Assumptions C16_final_within_trie.
Print Assumptions C16_final_sandwich.
Print Assumptions C16_K1_located.
Print Assumptions C16_min_checkb.
Print Assumptions C16_print.
Print Assumptions C16_print_verbose.
Print Assumptions C16_ws_x_std.
Print Assumptions C16_engine_exec.
Print Assumptions C16_engine_exec_den.
Print Assumptions C16_engine_find.
Print Assumptions C16_print_ast.
Print Assumptions C16_print_ast_verbose.
Print Assumptions C16_print_ast_lang.
Print Assumptions C16_pipeline_printable.
Print Assumptions C16_pipeline_printable_nogap.

(* NON-VACUITY (Proofs/NonVacuity.v, world W2m): the sandwich on the input where widening
   happens: the specification language of ["ba","bb"] lies within the language of the final
   expression b{1,2}a?, which lies within the language of the trie. *)
From Grex Require Proofs.NonVacuity.
Theorem C16_nonvacuous : exists e s t,
  NonVacuity.world_ok NonVacuity.c_W2m NonVacuity.db_W2m SCPass1 NonVacuity.ws_W2m false e s
  /\ trie_of (grapheme_clusters NonVacuity.c_W2m NonVacuity.db_W2m (normalise NonVacuity.c_W2m NonVacuity.db_W2m NonVacuity.ws_W2m)) = Some t
  /\ (forall (lit cls : cp -> cp -> Prop) u, Spec lit cls NonVacuity.c_W2m NonVacuity.db_W2m NonVacuity.ws_W2m u -> L_expr lit cls e u)
  /\ (forall (lit cls : cp -> cp -> Prop) u, L_expr lit cls e u -> L_dfa lit cls t u).
Proof.
  pose proof NonVacuity.W2m as W.
  destruct (trie_of (grapheme_clusters NonVacuity.c_W2m NonVacuity.db_W2m (normalise NonVacuity.c_W2m NonVacuity.db_W2m NonVacuity.ws_W2m))) as [t|] eqn:Et;
    [|vm_compute in Et; discriminate].
  do 2 eexists. exists t. split; [exact W|]. split; [reflexivity|].
  split; intros lit cls u H.
  - exact (proj1 (C16_final_sandwich lit cls _ _ _ _ _ t (NonVacuity.w_nonempty _ _ _ _ _ _ _ W)
             (NonVacuity.w_oracle _ _ _ _ _ _ _ W) Et (NonVacuity.w_expr _ _ _ _ _ _ _ W)) u H (or_intror NonVacuity.W2m_K4)).
  - exact (proj2 (C16_final_sandwich lit cls _ _ _ _ _ t (NonVacuity.w_nonempty _ _ _ _ _ _ _ W)
             (NonVacuity.w_oracle _ _ _ _ _ _ _ W) Et (NonVacuity.w_expr _ _ _ _ _ _ _ W)) u H).
Qed.
Print Assumptions C16_nonvacuous.
