(* C12 *)
From Grex Require Import Base.Str.
