(* C12 — the command-line tool: flags map to the library settings as documented, the clap
   argument table is consistent, and the input file is split into test cases line by line.

   cli / cli_ops / clap_* are GENERATED from src/main.rs (gen/SrcCli.v); spec_cfg a is the
   documented configuration for the parsed arguments a (Model/History.v); run_setters applies
   the setter calls in order, stopping at the first panic. *)
From Grex Require Import Base.Str Model.Config Model.Builder Model.Print Model.Pipeline
  Model.History.
From Grex Require Import Proofs.Wrappers.
From GrexGen Require Import SrcConsts SrcBuilder SrcCli.

(* positive thresholds: the setter calls made by main() produce the documented settings *)
Theorem C12_flags : forall a,
  cli_minimum_repetitions a <> 0%N -> cli_minimum_substring_length a <> 0%N ->
  run_setters (cli_ops a) (inl src_default_cfg) = inl (spec_cfg a).
Proof. exact Wrappers.C12_flags. Qed.

(* a zero threshold would panic in the library with the documented message ... *)
Theorem C12_zero_threshold : forall a,
  (cli_minimum_repetitions a = 0%N ->
   run_setters (cli_ops a) (inl src_default_cfg) = inr msg_MINIMUM_REPETITIONS_MESSAGE)
  /\ (cli_minimum_repetitions a <> 0%N -> cli_minimum_substring_length a = 0%N ->
      run_setters (cli_ops a) (inl src_default_cfg) = inr msg_MINIMUM_SUBSTRING_LENGTH_MESSAGE).
Proof.
  intro a. exact (conj (Wrappers.C12_zero_threshold a) (Wrappers.C12_zero_threshold_len a)).
Qed.

(* ... but clap's value parser rejects zero first; further facts of the argument table *)
Theorem C12_clap_facts :
  clap_surrogates_requires_escape = true /\
  clap_input_conflicts_with_file = true /\
  cli_rejects_empty_input = true /\
  clap_threshold_defaults = (1%N, 1%N) /\ clap_thresholds_reject_zero = true.
Proof. exact Wrappers.C12_clap_facts. Qed.

Theorem C12_names_distinct : NoDup clap_long_names /\ NoDup clap_short_flags.
Proof. exact Wrappers.C12_names_distinct. Qed.

(* no flags: the library default *)
Theorem C12_no_flags :
  spec_cfg (mkCli false false false false false false false false false false false false
                  false false false false 1 1) = src_default_cfg.
Proof. exact Wrappers.C12_no_flags. Qed.

(* --convert-to-surrogates is only accepted together with --escape *)
Theorem C12_surrogates : forall a,
  (cli_is_astral_code_point_converted_to_surrogate a = true -> cli_is_non_ascii_char_escaped a = true) ->
  f_sur (spec_cfg a) = cli_is_astral_code_point_converted_to_surrogate a.
Proof. exact Wrappers.C12_surrogates. Qed.

(* reading the test cases from a file (str::lines): a file made of the test cases ws joined by
   LF (resp. CRLF), with or without a final line break, is split into exactly ws — iff no test
   case ends in CR (LF files) and the last test case is not empty when the final line break
   is missing *)
Theorem C12_lines_lf : forall (ws : list str) (final_nl : bool),
  Forall (fun w => ~ In 10%N w) ws ->
  (lines (join [10%N] ws ++ (if final_nl && negb (is_nil ws) then [10%N] else [])) = ws
   <->
   Forall (fun w => last_cp w <> Some 13%N) (if final_nl then ws else removelast ws)
   /\ (final_nl = false -> ws <> [] -> last ws [] <> [])).
Proof. exact Wrappers.C12_lines_lf_iff. Qed.

Theorem C12_lines_crlf : forall (ws : list str) (final_nl : bool),
  Forall (fun w => ~ In 10%N w) ws ->
  (lines (join [13%N; 10%N] ws ++ (if final_nl && negb (is_nil ws) then [13%N; 10%N] else [])) = ws
   <->
   (final_nl = false -> ws <> [] -> last ws [] <> [])).
Proof. exact Wrappers.C12_lines_crlf_iff. Qed.

(* a test case read from a file never contains LF *)
Theorem C12_lines_no_nl : forall (ws : list str) s,
  lines s = ws -> Forall (fun w => ~ In 10%N w) ws.
Proof. exact Wrappers.C12_lines_needs_no_nl. Qed.

Print Assumptions C12_flags.
Print Assumptions C12_zero_threshold.
Print Assumptions C12_clap_facts.
Print Assumptions C12_names_distinct.
Print Assumptions C12_no_flags.
Print Assumptions C12_surrogates.
Print Assumptions C12_lines_lf.
Print Assumptions C12_lines_crlf.
Print Assumptions C12_lines_no_nl.
