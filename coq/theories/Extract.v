(* Extraction of the executable model for the correspondence check.
   ExtrOcamlBasic only: bool, option, list, prod, unit, sumbool map to OCaml's; numbers stay
   Coq's positive / N / nat datatypes; no Extract Constant. *)
From Coq Require Import Extraction ExtrOcamlBasic.
From Grex Require Import Engine.Syntax Engine.Parse Engine.Exec Engine.ExecCi Engine.Prio Engine.PrioCi.
From Grex Require Import Base.Str Model.Config Model.Cluster Model.Dfa Model.Expr Model.Print Model.Pipeline Model.SelfCheck.
Extraction Language OCaml.
Extraction "model.ml"
  mkCfg default_cfg mkO normalise clusters_g clusters_k clusters_r grapheme_clusters
  trie_of no_merge minimize dfa_from expr_from final_expr new_alternation regexp_str build
  e_str lines strip_sgr mem_ranges is_digit is_word is_space g_eqb expr_eqb
  escape_cp hex_of_N dec_of_N cluster_of convert_classes convert_repetitions
  partition_of dfs_order union2 concatenate parse sc_admissible matches_whole_cs find_leftmost_cs matches_whole_engine find_leftmost_engine find_first_engine rep_bodies_ok find_iter_count_engine sc_ref sc_decide cand_str cand1_str dfa_from.
