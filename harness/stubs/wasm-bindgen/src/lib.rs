//! Stub of wasm-bindgen for native execution of src/wasm.rs.
//! A JsValue is either a JS string or some other JS value.
#[derive(Clone, Debug, PartialEq)]
pub enum JsValue {
    Str(String),
    Other,
}
impl JsValue {
    pub fn as_string(&self) -> Option<String> {
        match self {
            JsValue::Str(s) => Some(s.clone()),
            JsValue::Other => None,
        }
    }
}
impl From<&str> for JsValue {
    fn from(s: &str) -> Self {
        JsValue::Str(s.to_string())
    }
}
impl From<String> for JsValue {
    fn from(s: String) -> Self {
        JsValue::Str(s)
    }
}
pub mod prelude {
    pub use crate::JsValue;
    pub use wasm_bindgen_macro::wasm_bindgen;
}
