//! Stub of the `#[wasm_bindgen]` attribute for native execution of src/wasm.rs: identity.
use proc_macro::TokenStream;
#[proc_macro_attribute]
pub fn wasm_bindgen(_attr: TokenStream, item: TokenStream) -> TokenStream {
    item
}
