//! grexv — runs the implementation (compiled from /repo's working tree with cfg(grex_verif))
//! on cases read from stdin and prints, per case, stage snapshots, oracle data for the Coq
//! model (lower-casing, grapheme segmentation, general categories) and property verdicts
//! judged by the regex crate's reference engines (PikeVM, dense DFA).
//!
//! Subcommands:  run | dump | lines | wasm | threads

use grex::RegExpBuilder;
use regex_automata::dfa::{dense, Automaton, StartKind};
use regex_automata::nfa::thompson::pikevm::PikeVM;
use regex_automata::util::primitives::StateID;
use regex_automata::{Anchored, Input};
use serde_json::{json, Value};
use std::collections::{BTreeMap, BTreeSet, HashMap, VecDeque};
use std::io::{BufRead, Write};
use std::panic::{catch_unwind, AssertUnwindSafe};
use unic_ucd_category::GeneralCategory;
use unicode_segmentation::UnicodeSegmentation;

#[derive(Clone, Debug, Default)]
struct Flags {
    d: bool,
    nd: bool,
    s: bool,
    ns_: bool,
    w: bool,
    nw: bool,
    rep: bool,
    ci: bool,
    cap: bool,
    esc: bool,
    sur: bool,
    verbose: bool,
    colour: bool,
    no_start: bool,
    no_end: bool,
    mr: u32,
    ms: u32,
    /// apply the threshold setters before every other setter (builder call order, seed C13d)
    thr_first: bool,
    /// call with_escaping_of_non_ascii_chars(true) before the call with the requested value (last call wins, seed C11e)
    esc_twice: bool,
}

fn parse_flags(v: &Value) -> Flags {
    let mut f = Flags {
        mr: v["mr"].as_u64().unwrap_or(1) as u32,
        ms: v["ms"].as_u64().unwrap_or(1) as u32,
        thr_first: v["thr_first"].as_bool().unwrap_or(false),
        esc_twice: v["esc_twice"].as_bool().unwrap_or(false),
        ..Default::default()
    };
    for name in v["f"].as_str().unwrap_or("").split(',') {
        match name {
            "d" => f.d = true,
            "D" => f.nd = true,
            "s" => f.s = true,
            "S" => f.ns_ = true,
            "w" => f.w = true,
            "W" => f.nw = true,
            "r" => f.rep = true,
            "i" => f.ci = true,
            "g" => f.cap = true,
            "e" => f.esc = true,
            "E" => {
                f.esc = true;
                f.sur = true
            }
            "x" => f.verbose = true,
            "c" => f.colour = true,
            "ns" => f.no_start = true,
            "ne" => f.no_end = true,
            "" => {}
            other => panic!("unknown flag {other}"),
        }
    }
    f
}

fn mk_builder(tcs: &[String], f: &Flags) -> RegExpBuilder {
    let mut b = RegExpBuilder::from(tcs);
    if f.thr_first {
        b.with_minimum_repetitions(f.mr);
        b.with_minimum_substring_length(f.ms);
    }
    if f.d {
        b.with_conversion_of_digits();
    }
    if f.nd {
        b.with_conversion_of_non_digits();
    }
    if f.s {
        b.with_conversion_of_whitespace();
    }
    if f.ns_ {
        b.with_conversion_of_non_whitespace();
    }
    if f.w {
        b.with_conversion_of_words();
    }
    if f.nw {
        b.with_conversion_of_non_words();
    }
    if f.rep {
        b.with_conversion_of_repetitions();
    }
    if f.ci {
        b.with_case_insensitive_matching();
    }
    if f.cap {
        b.with_capturing_groups();
    }
    if f.esc {
        if f.esc_twice {
            b.with_escaping_of_non_ascii_chars(true);
        }
        b.with_escaping_of_non_ascii_chars(f.sur);
    }
    if f.verbose {
        b.with_verbose_mode();
    }
    if f.no_start {
        b.without_start_anchor();
    }
    if f.no_end {
        b.without_end_anchor();
    }
    if f.colour {
        b.with_syntax_highlighting();
    }
    if !f.thr_first {
        b.with_minimum_repetitions(f.mr);
        b.with_minimum_substring_length(f.ms);
    }
    b
}

fn flag_names(f: &Flags) -> Vec<&'static str> {
    let mut v = vec![];
    if f.d { v.push("d") }
    if f.nd { v.push("D") }
    if f.s { v.push("s") }
    if f.ns_ { v.push("S") }
    if f.w { v.push("w") }
    if f.nw { v.push("W") }
    if f.rep { v.push("r") }
    if f.ci { v.push("i") }
    if f.cap { v.push("g") }
    if f.esc { v.push("e") }
    if f.verbose { v.push("x") }
    if f.no_start { v.push("ns") }
    if f.no_end { v.push("ne") }
    if f.colour { v.push("c") }
    v.push("mr");
    v.push("ms");
    v
}

fn apply_flag(b: &mut RegExpBuilder, name: &str, f: &Flags) {
    match name {
        "d" => { b.with_conversion_of_digits(); }
        "D" => { b.with_conversion_of_non_digits(); }
        "s" => { b.with_conversion_of_whitespace(); }
        "S" => { b.with_conversion_of_non_whitespace(); }
        "w" => { b.with_conversion_of_words(); }
        "W" => { b.with_conversion_of_non_words(); }
        "r" => { b.with_conversion_of_repetitions(); }
        "i" => { b.with_case_insensitive_matching(); }
        "g" => { b.with_capturing_groups(); }
        "e" => { b.with_escaping_of_non_ascii_chars(f.sur); }
        "x" => { b.with_verbose_mode(); }
        "ns" => { b.without_start_anchor(); }
        "ne" => { b.without_end_anchor(); }
        "c" => { b.with_syntax_highlighting(); }
        "mr" => { b.with_minimum_repetitions(f.mr); }
        "ms" => { b.with_minimum_substring_length(f.ms); }
        _ => panic!("flag"),
    }
}

/// C10: one case through permutations, duplicates, repeated builds, clones, setter orders,
/// interleaved builds and concurrent threads. Returns the variants whose output differs.
fn perm_case(case: &Value) -> Value {
    let tcs: Vec<String> = case["tcs"].as_array().unwrap().iter().map(str_of).collect();
    let f = parse_flags(case);
    let id = case["id"].as_u64().unwrap_or(0);
    let base = match plain_build(&tcs, &f) {
        Ok(o) => o,
        Err(m) => return json!({"id": case["id"], "panic": m}),
    };
    let mut bad = vec![];
    let mut variants = 0usize;
    let mut check = |name: &str, out: Result<String, String>, want: &str| {
        variants += 1;
        match out {
            Ok(o) if o == want => {}
            Ok(o) => bad.push(json!({"variant": name, "out": cps(&o), "want": cps(want)})),
            Err(m) => bad.push(json!({"variant": name, "panic": m})),
        }
    };
    // list order and duplicates
    let mut rev = tcs.clone();
    rev.reverse();
    check("reversed", plain_build(&rev, &f), &base);
    let mut dup = tcs.clone();
    dup.extend(tcs.iter().cloned());
    check("duplicated", plain_build(&dup, &f), &base);
    let mut sh = tcs.clone();
    let mut x = id.wrapping_mul(6364136223846793005).wrapping_add(1442695040888963407);
    for i in (1..sh.len()).rev() {
        x = x.wrapping_mul(6364136223846793005).wrapping_add(1442695040888963407);
        sh.swap(i, (x >> 33) as usize % (i + 1));
    }
    sh.push(tcs[0].clone());
    check("shuffled+dup", plain_build(&sh, &f), &base);
    // repeated build on the same builder and on a clone
    let r = catch_unwind(AssertUnwindSafe(|| {
        let mut b = mk_builder(&tcs, &f);
        let first = b.build();
        let mut c = b.clone();
        let second = b.build();
        let third = c.build();
        (first, second, third)
    }));
    match r {
        Ok((a, b2, c)) => {
            check("build#1", Ok(a), &base);
            check("build#2 same builder", Ok(b2), &base);
            check("build on clone after build", Ok(c), &base);
        }
        Err(e) => check("repeated", Err(panic_msg(e)), &base),
    }
    // setter order reversed
    let names = flag_names(&f);
    let r = catch_unwind(AssertUnwindSafe(|| {
        let mut b = RegExpBuilder::from(&tcs);
        for n in names.iter().rev() {
            apply_flag(&mut b, n, &f);
        }
        b.build()
    }));
    check("setters reversed", r.map_err(panic_msg), &base);
    // interleaved builds: after every setter a build; each must equal a fresh build with the
    // settings accumulated so far, the last one the base
    let r = catch_unwind(AssertUnwindSafe(|| {
        let mut b = RegExpBuilder::from(&tcs);
        let mut outs = vec![];
        for (k, n) in names.iter().enumerate() {
            apply_flag(&mut b, n, &f);
            let got = b.build();
            let mut fresh = RegExpBuilder::from(&tcs);
            for m in names.iter().take(k + 1) {
                apply_flag(&mut fresh, m, &f);
            }
            outs.push((format!("interleaved after {}", n), got, fresh.build()));
        }
        outs
    }));
    match r {
        Ok(outs) => {
            for (name, got, want) in outs {
                check(&name, Ok(got), &want);
            }
        }
        Err(e) => check("interleaved", Err(panic_msg(e)), &base),
    }
    // a build BEFORE any setter (default settings), then all setters, then a build: the second result must not remember the
    // first (seed C10g: a "sorted once" flag set by the first build, invalidated by no setter); and a clone taken before
    // the setters still builds with default settings afterwards
    let r = catch_unwind(AssertUnwindSafe(|| {
        let mut b = RegExpBuilder::from(&tcs);
        let early = b.build();
        let mut c0 = b.clone();
        for n in names.iter() {
            apply_flag(&mut b, n, &f);
        }
        let late = b.build();
        let mut c1 = b.clone();
        let early_clone = c0.build();
        let late_clone = c1.build();
        let fresh_default = RegExpBuilder::from(&tcs).build();
        (early, late, early_clone, late_clone, fresh_default)
    }));
    match r {
        Ok((early, late, early_clone, late_clone, fresh_default)) => {
            check("build before any setter", Ok(early), &fresh_default);
            check("build after build + all setters", Ok(late), &base);
            check("clone taken before the setters", Ok(early_clone), &fresh_default);
            check("clone taken after build + setters + build", Ok(late_clone), &base);
        }
        Err(e) => check("build before setters", Err(panic_msg(e)), &base),
    }
    // concurrent builds
    let outs: Vec<Result<String, String>> = std::thread::scope(|sc| {
        let hs: Vec<_> = (0..8).map(|_| sc.spawn(|| plain_build(&tcs, &f))).collect();
        hs.into_iter().map(|h| h.join().unwrap_or_else(|_| Err("thread panicked".into()))).collect()
    });
    for (k, o) in outs.into_iter().enumerate() {
        check(&format!("thread {}", k), o, &base);
    }
    json!({"id": case["id"], "base": cps(&base), "variants": variants, "bad": bad})
}

/// C17: a sequence of wasm setter calls on the natively compiled src/wasm.rs (stub
/// wasm_bindgen), compared with the library driven by the corresponding calls.
fn wasm_case(case: &Value) -> Value {
    use grex::wasm_native::RegExpBuilder as W;
    use wasm_bindgen::JsValue;
    let items: Vec<JsValue> = case["items"]
        .as_array()
        .unwrap()
        .iter()
        .map(|v| if v.is_array() { JsValue::Str(str_of(v)) } else { JsValue::Other })
        .collect();
    let strs: Vec<String> = case["items"].as_array().unwrap().iter().filter(|v| v.is_array()).map(str_of).collect();
    let calls: Vec<(String, i64)> = case["calls"]
        .as_array()
        .unwrap()
        .iter()
        .map(|c| (c[0].as_str().unwrap().to_string(), c[1].as_i64().unwrap_or(0)))
        .collect();
    let r = catch_unwind(AssertUnwindSafe(|| {
        let mut log: Vec<Value> = vec![];
        let w = W::from(items.clone().into_boxed_slice());
        let lib_possible = !strs.is_empty();
        let mut w = match w {
            Ok(w) => {
                if !lib_possible {
                    log.push(json!({"step": "from", "bad": "wasm accepted an empty list"}));
                    return log;
                }
                w
            }
            Err(e) => {
                let want = "No test cases have been provided for regular expression generation";
                if lib_possible || e.as_string().as_deref() != Some(want) {
                    log.push(json!({"step": "from", "bad": format!("threw {:?}", e)}));
                }
                return log;
            }
        };
        let mut lib = RegExpBuilder::from(&strs);
        // objects: index 0 is the original; every setter returns a clone that becomes a new object
        let mut ws: Vec<W> = vec![];
        let mut ls: Vec<RegExpBuilder> = vec![];
        ws.push(w.clone());
        ls.push(lib.clone());
        let _ = (&mut w, &mut lib);
        for (k, (name, arg)) in calls.iter().enumerate() {
            let target = (*arg as usize >> 8) % ws.len();
            let val = (*arg & 0xff) as u32;
            let (wobj, lobj) = (&mut ws[target], &mut ls[target]);
            let res: Result<Option<W>, JsValue> = match name.as_str() {
                "withConversionOfDigits" => { lobj.with_conversion_of_digits(); Ok(Some(wobj.withConversionOfDigits())) }
                "withConversionOfNonDigits" => { lobj.with_conversion_of_non_digits(); Ok(Some(wobj.withConversionOfNonDigits())) }
                "withConversionOfWhitespace" => { lobj.with_conversion_of_whitespace(); Ok(Some(wobj.withConversionOfWhitespace())) }
                "withConversionOfNonWhitespace" => { lobj.with_conversion_of_non_whitespace(); Ok(Some(wobj.withConversionOfNonWhitespace())) }
                "withConversionOfWords" => { lobj.with_conversion_of_words(); Ok(Some(wobj.withConversionOfWords())) }
                "withConversionOfNonWords" => { lobj.with_conversion_of_non_words(); Ok(Some(wobj.withConversionOfNonWords())) }
                "withConversionOfRepetitions" => { lobj.with_conversion_of_repetitions(); Ok(Some(wobj.withConversionOfRepetitions())) }
                "withCaseInsensitiveMatching" => { lobj.with_case_insensitive_matching(); Ok(Some(wobj.withCaseInsensitiveMatching())) }
                "withCapturingGroups" => { lobj.with_capturing_groups(); Ok(Some(wobj.withCapturingGroups())) }
                "withEscapingOfNonAsciiChars" => { lobj.with_escaping_of_non_ascii_chars(val != 0); Ok(Some(wobj.withEscapingOfNonAsciiChars(val != 0))) }
                "withVerboseMode" => { lobj.with_verbose_mode(); Ok(Some(wobj.withVerboseMode())) }
                "withoutStartAnchor" => { lobj.without_start_anchor(); Ok(Some(wobj.withoutStartAnchor())) }
                "withoutEndAnchor" => { lobj.without_end_anchor(); Ok(Some(wobj.withoutEndAnchor())) }
                "withoutAnchors" => { lobj.without_anchors(); Ok(Some(wobj.withoutAnchors())) }
                "withMinimumRepetitions" => {
                    let r = wobj.withMinimumRepetitions(val);
                    if val > 0 { lobj.with_minimum_repetitions(val); }
                    match r {
                        Ok(x) => if val == 0 { Err(JsValue::from("accepted zero")) } else { Ok(Some(x)) },
                        Err(e) => if val == 0 && e.as_string().as_deref() == Some("Quantity of minimum repetitions must be greater than zero") { Ok(None) } else { Err(e) },
                    }
                }
                "withMinimumSubstringLength" => {
                    let r = wobj.withMinimumSubstringLength(val);
                    if val > 0 { lobj.with_minimum_substring_length(val); }
                    match r {
                        Ok(x) => if val == 0 { Err(JsValue::from("accepted zero")) } else { Ok(Some(x)) },
                        Err(e) => if val == 0 && e.as_string().as_deref() == Some("Minimum substring length must be greater than zero") { Ok(None) } else { Err(e) },
                    }
                }
                "build" => {
                    let a = wobj.build();
                    let b = lobj.build();
                    if a != b {
                        log.push(json!({"step": k, "call": "build", "bad": "outputs differ", "wasm": cps(&a), "lib": cps(&b)}));
                    }
                    Ok(None)
                }
                other => panic!("unknown wasm call {other}"),
            };
            match res {
                Ok(Some(newobj)) => {
                    let lclone = ls[target].clone();
                    ws.push(newobj);
                    ls.push(lclone);
                }
                Ok(None) => {}
                Err(e) => log.push(json!({"step": k, "call": name, "bad": format!("{:?}", e)})),
            }
        }
        // final: every object builds to the library's result for its ancestry
        for (k, (wo, lo)) in ws.iter_mut().zip(ls.iter_mut()).enumerate() {
            let a = wo.build();
            let b = lo.build();
            if a != b {
                log.push(json!({"step": "final", "object": k, "bad": "outputs differ", "wasm": cps(&a), "lib": cps(&b)}));
            }
        }
        log
    }));
    match r {
        Ok(log) => json!({"id": case["id"], "bad": log}),
        Err(e) => json!({"id": case["id"], "bad": [{"panic": panic_msg(e)}]}),
    }
}

/// the effect of every library setter on the default configuration, as the compiled code sees it
fn setters_dump() -> Value {
    let names = ["d", "D", "s", "S", "w", "W", "r", "i", "g", "e", "x", "ns", "ne", "c", "mr", "ms"];
    let mut out = serde_json::Map::new();
    let tcs = vec!["a".to_string()];
    let b0 = RegExpBuilder::from(&tcs);
    out.insert("default".into(), json!(grex::verif::builder_state(&b0)));
    for n in names {
        for (sur, mr) in [(false, 3u32), (true, 5u32)] {
            let f = Flags { sur, mr, ms: mr + 1, ..Default::default() };
            let mut b = RegExpBuilder::from(&tcs);
            apply_flag(&mut b, n, &f);
            out.insert(format!("{n}:{sur}:{mr}"), json!(grex::verif::builder_state(&b)));
        }
    }
    let mut b = RegExpBuilder::from(&tcs);
    b.without_anchors();
    out.insert("na".into(), json!(grex::verif::builder_state(&b)));
    for (name, val) in [("mr", 0u32), ("ms", 0u32)] {
        let r = catch_unwind(AssertUnwindSafe(|| {
            let mut b = RegExpBuilder::from(&tcs);
            if name == "mr" { b.with_minimum_repetitions(val); } else { b.with_minimum_substring_length(val); }
        }));
        out.insert(format!("{name}:zero"), json!(r.err().map(panic_msg)));
    }
    let r = catch_unwind(|| { let e: Vec<String> = vec![]; RegExpBuilder::from(&e); });
    out.insert("from:empty".into(), json!(r.err().map(panic_msg)));
    Value::Object(out)
}

fn cps(s: &str) -> Value {
    Value::Array(s.chars().map(|c| json!(c as u32)).collect())
}

fn str_of(v: &Value) -> String {
    v.as_array()
        .unwrap()
        .iter()
        .map(|c| char::from_u32(c.as_u64().unwrap() as u32).expect("scalar value"))
        .collect()
}

fn panic_msg(e: Box<dyn std::any::Any + Send>) -> String {
    if let Some(s) = e.downcast_ref::<&str>() {
        s.to_string()
    } else if let Some(s) = e.downcast_ref::<String>() {
        s.clone()
    } else {
        "<non-string panic>".to_string()
    }
}

/// Runs build() with tracing; returns (output or panic message, trace).
fn traced_build(tcs: &[String], f: &Flags) -> (Result<String, String>, Vec<(&'static str, String)>) {
    grex::verif::start_trace();
    let r = catch_unwind(AssertUnwindSafe(|| mk_builder(tcs, f).build()));
    let trace = grex::verif::take_trace();
    (r.map_err(panic_msg), trace)
}

fn plain_build(tcs: &[String], f: &Flags) -> Result<String, String> {
    catch_unwind(AssertUnwindSafe(|| mk_builder(tcs, f).build())).map_err(panic_msg)
}

// ------------------------------------------------------------------------------------------
// Judges: regex crate reference engines
// ------------------------------------------------------------------------------------------

fn strip_sgr(s: &str) -> String {
    // independent scanner for ESC [ (digits ; digits | 0) m
    let b: Vec<char> = s.chars().collect();
    let mut out = String::new();
    let mut i = 0;
    while i < b.len() {
        if b[i] == '\u{1b}' && i + 1 < b.len() && b[i + 1] == '[' {
            let mut j = i + 2;
            let d0 = j;
            while j < b.len() && b[j].is_ascii_digit() {
                j += 1;
            }
            let first: String = b[d0..j].iter().collect();
            if j < b.len() && b[j] == 'm' && first == "0" {
                i = j + 1;
                continue;
            }
            if j > d0 && j < b.len() && b[j] == ';' {
                let mut k = j + 1;
                let d1 = k;
                while k < b.len() && b[k].is_ascii_digit() {
                    k += 1;
                }
                if k > d1 && k < b.len() && b[k] == 'm' {
                    i = k + 1;
                    continue;
                }
            }
        }
        out.push(b[i]);
        i += 1;
    }
    out
}

fn full_pattern(p: &str) -> String {
    format!("^(?:{p}\n)$") // the newline ends a trailing `#` comment under (?x); it is ignored ...
}

/// Wraps pattern so that it must match the whole haystack. A verbose-mode pattern keeps its own
/// flag group; we must not add raw whitespace to a non-verbose pattern.
fn anchored_whole(p: &str) -> String {
    if p.starts_with("(?x)") || p.starts_with("(?ix)") {
        full_pattern(p)
    } else {
        format!("^(?:{p})$")
    }
}

fn build_dense(p: &str) -> Result<dense::DFA<Vec<u32>>, String> {
    dense::Builder::new()
        .configure(
            dense::Config::new()
                .start_kind(StartKind::Anchored)
                .dfa_size_limit(Some(64 << 20))
                .determinize_size_limit(Some(64 << 20)),
        )
        .build(&anchored_whole(p))
        .map_err(|e| e.to_string())
}

/// Language equality of two patterns (whole-haystack semantics) by breadth-first product of
/// their dense DFAs. Ok(None) = equal; Ok(Some(w)) = shortest distinguishing haystack (bytes,
/// and which side accepts it); Err = could not build a DFA.
fn lang_diff(a: &str, b: &str) -> Result<Option<(Vec<u8>, bool)>, String> {
    let da = build_dense(a).map_err(|e| format!("left: {e}"))?;
    let db = build_dense(b).map_err(|e| format!("right: {e}"))?;
    let inp = Input::new("").anchored(Anchored::Yes);
    let sa = da.start_state_forward(&inp).map_err(|e| e.to_string())?;
    let sb = db.start_state_forward(&inp).map_err(|e| e.to_string())?;
    let mut seen: HashMap<(StateID, StateID), Option<((StateID, StateID), u8)>> = HashMap::new();
    let mut q = VecDeque::new();
    seen.insert((sa, sb), None);
    q.push_back((sa, sb));
    while let Some((x, y)) = q.pop_front() {
        let ax = da.is_match_state(da.next_eoi_state(x));
        let ay = db.is_match_state(db.next_eoi_state(y));
        if ax != ay {
            let mut w = vec![];
            let mut cur = (x, y);
            while let Some(Some((prev, byte))) = seen.get(&cur) {
                w.push(*byte);
                cur = *prev;
            }
            w.reverse();
            return Ok(Some((w, ax)));
        }
        if da.is_dead_state(x) && db.is_dead_state(y) {
            continue;
        }
        for byte in 0..=255u8 {
            let nx = da.next_state(x, byte);
            let ny = db.next_state(y, byte);
            if da.is_dead_state(nx) && db.is_dead_state(ny) {
                continue;
            }
            if !seen.contains_key(&(nx, ny)) {
                seen.insert((nx, ny), Some(((x, y), byte)));
                q.push_back((nx, ny));
            }
        }
        if seen.len() > 4_000_000 {
            return Err("product too large".into());
        }
    }
    Ok(None)
}

fn pikevm_find(p: &str, hay: &str) -> Result<Option<(usize, usize)>, String> {
    let re = PikeVM::new(p).map_err(|e| e.to_string())?;
    let mut cache = re.create_cache();
    Ok(re.find(&mut cache, hay).map(|m| (m.start(), m.end())))
}

fn pikevm_full(p: &str, hay: &str) -> Result<bool, String> {
    let re = PikeVM::new(&anchored_whole(p)).map_err(|e| e.to_string())?;
    let mut cache = re.create_cache();
    Ok(re.is_match(&mut cache, hay))
}

// engine classes, straight from regex-syntax
fn class_ranges(p: &str) -> Vec<(u32, u32)> {
    use regex_syntax::hir::{Class, HirKind};
    let hir = regex_syntax::Parser::new().parse(p).unwrap();
    match hir.kind() {
        HirKind::Class(Class::Unicode(c)) => c
            .iter()
            .map(|r| (r.start() as u32, r.end() as u32))
            .collect(),
        k => panic!("not a class: {k:?}"),
    }
}

struct Engine {
    d: Vec<(u32, u32)>,
    w: Vec<(u32, u32)>,
    s: Vec<(u32, u32)>,
}

impl Engine {
    fn new() -> Self {
        Engine {
            d: class_ranges(r"\d"),
            w: class_ranges(r"\w"),
            s: class_ranges(r"\s"),
        }
    }
    fn mem(t: &[(u32, u32)], c: char) -> bool {
        let c = c as u32;
        t.binary_search_by(|&(a, b)| {
            if c < a {
                std::cmp::Ordering::Greater
            } else if c > b {
                std::cmp::Ordering::Less
            } else {
                std::cmp::Ordering::Equal
            }
        })
        .is_ok()
    }
    /// the token a code point is documented to become, judged by the *engine's* classes
    fn token(&self, f: &Flags, c: char) -> String {
        let (d, w, s) = (
            Self::mem(&self.d, c),
            Self::mem(&self.w, c),
            Self::mem(&self.s, c),
        );
        if f.d && d {
            r"\d".into()
        } else if f.w && w {
            r"\w".into()
        } else if f.s && s {
            r"\s".into()
        } else if f.nd && !d {
            r"\D".into()
        } else if f.nw && !w {
            r"\W".into()
        } else if f.ns_ && !s {
            r"\S".into()
        } else {
            lit(c)
        }
    }
    /// specification pattern: alternation of the ORIGINAL test cases, class tokens per flags,
    /// (?i) when case-insensitive. Independent of grex's tables, lower-casing and printing.
    fn spec(&self, f: &Flags, tcs: &[String]) -> String {
        let mut alts: Vec<String> = tcs
            .iter()
            .map(|t| t.chars().map(|c| self.token(f, c)).collect::<String>())
            .collect();
        alts.sort();
        alts.dedup();
        format!(
            "{}(?:{})",
            if f.ci { "(?i)" } else { "" },
            alts.iter()
                .map(|a| format!("(?:{a})"))
                .collect::<Vec<_>>()
                .join("|")
        )
    }
}

fn lit(c: char) -> String {
    format!("\\x{{{:x}}}", c as u32)
}

/// decode \u{hi}\u{lo} surrogate escape pairs into \u{cp}
fn decode_surrogates(p: &str) -> String {
    let re = regex::Regex::new(r"\\u\{(d[89ab][0-9a-f]{2})\}\\u\{(d[c-f][0-9a-f]{2})\}").unwrap();
    re.replace_all(p, |c: &regex::Captures| {
        let hi = u32::from_str_radix(&c[1], 16).unwrap();
        let lo = u32::from_str_radix(&c[2], 16).unwrap();
        format!("\\u{{{:x}}}", 0x10000 + ((hi - 0xd800) << 10) + (lo - 0xdc00))
    })
    .to_string()
}

/// canonical S-expression of the regex_syntax AST (for validating the Coq parser model)
fn ast_sexpr(p: &str) -> String {
    use regex_syntax::ast::{self, Ast};
    let ast = match ast::parse::Parser::new().parse(p) {
        Ok(a) => a,
        Err(_) => return "NONE".to_string(),
    };
    fn flags_of(f: &ast::SetFlags) -> Option<(bool, bool)> {
        let mut i = false;
        let mut x = false;
        for it in &f.flags.items {
            match &it.kind {
                ast::FlagsItemKind::Flag(ast::Flag::CaseInsensitive) => i = true,
                ast::FlagsItemKind::Flag(ast::Flag::IgnoreWhitespace) => x = true,
                _ => return None,
            }
        }
        Some((i, x))
    }
    fn item(i: &ast::ClassSetItem, out: &mut Vec<String>) -> bool {
        match i {
            ast::ClassSetItem::Empty(_) => true,
            ast::ClassSetItem::Literal(l) => { out.push(format!("{}-{}", l.c as u32, l.c as u32)); true }
            ast::ClassSetItem::Range(r) => { out.push(format!("{}-{}", r.start.c as u32, r.end.c as u32)); true }
            ast::ClassSetItem::Union(u) => u.items.iter().all(|x| item(x, out)),
            _ => false,
        }
    }
    fn go(a: &Ast) -> String {
        match a {
            Ast::Empty(_) => "(empty)".into(),
            Ast::Flags(_) => "(flags)".into(),
            Ast::Literal(l) => format!("(lit {})", l.c as u32),
            Ast::Dot(_) => "(dot)".into(),
            Ast::Assertion(x) => match x.kind {
                ast::AssertionKind::StartLine => "^".into(),
                ast::AssertionKind::EndLine => "$".into(),
                _ => "(assert)".into(),
            },
            Ast::ClassUnicode(_) => "(unicode-class)".into(),
            Ast::ClassPerl(c) => {
                let l = match (&c.kind, c.negated) {
                    (ast::ClassPerlKind::Digit, false) => 'd',
                    (ast::ClassPerlKind::Digit, true) => 'D',
                    (ast::ClassPerlKind::Space, false) => 's',
                    (ast::ClassPerlKind::Space, true) => 'S',
                    (ast::ClassPerlKind::Word, false) => 'w',
                    (ast::ClassPerlKind::Word, true) => 'W',
                };
                format!("(perl {})", l)
            }
            Ast::ClassBracketed(c) => {
                if c.negated { return "(br-negated)".into(); }
                match &c.kind {
                    ast::ClassSet::Item(i) => {
                        let mut out = vec![];
                        if item(i, &mut out) { format!("(br {})", out.join(" ")) } else { "(br-other)".into() }
                    }
                    _ => "(br-op)".into(),
                }
            }
            Ast::Repetition(r) => {
                if !r.greedy { return "(lazy)".into(); }
                let (lo, hi) = match &r.op.kind {
                    ast::RepetitionKind::ZeroOrOne => (0, "1".to_string()),
                    ast::RepetitionKind::ZeroOrMore => (0, "inf".to_string()),
                    ast::RepetitionKind::OneOrMore => (1, "inf".to_string()),
                    ast::RepetitionKind::Range(rg) => match rg {
                        ast::RepetitionRange::Exactly(n) => (*n, n.to_string()),
                        ast::RepetitionRange::AtLeast(n) => (*n, "inf".to_string()),
                        ast::RepetitionRange::Bounded(m, n) => (*m, n.to_string()),
                    },
                };
                format!("(rep {} {} {})", lo, hi, go(&r.ast))
            }
            Ast::Group(g) => match &g.kind {
                ast::GroupKind::CaptureIndex(_) => format!("(grp cap {})", go(&g.ast)),
                ast::GroupKind::NonCapturing(f) if f.items.is_empty() => format!("(grp non {})", go(&g.ast)),
                _ => "(grp-other)".into(),
            },
            Ast::Alternation(al) => format!("(alt {})", al.asts.iter().map(go).collect::<Vec<_>>().join(" ")),
            Ast::Concat(c) => format!("(cat {})", c.asts.iter().map(go).collect::<Vec<_>>().join(" ")),
        }
    }
    // leading flags item: at the start of the pattern, i.e. the AST itself, the head of the top
    // concatenation, or the head of the first alternative of the top alternation
    fn strip(a: &Ast) -> Option<((bool, bool), String)> {
        match a {
            Ast::Flags(f) => flags_of(f).map(|fl| (fl, "(empty)".to_string())),
            Ast::Concat(c) => match c.asts.first() {
                Some(Ast::Flags(f)) => flags_of(f).map(|fl| {
                    let rest: Vec<String> = c.asts[1..].iter().map(go).collect();
                    (fl, if rest.len() == 1 { rest[0].clone() } else { format!("(cat {})", rest.join(" ")) })
                }),
                _ => None,
            },
            Ast::Alternation(al) => match al.asts.first().and_then(strip) {
                Some((fl, first)) => {
                    let mut parts = vec![first];
                    parts.extend(al.asts[1..].iter().map(go));
                    Some((fl, format!("(alt {})", parts.join(" "))))
                }
                None => None,
            },
            _ => None,
        }
    }
    let (fl, body): (String, String) = match strip(&ast) {
        Some(((i, x), b)) => (format!("{}{}", if i { "i" } else { "" }, if x { "x" } else { "" }), b),
        None => ("".into(), go(&ast)),
    };
    format!("flags={} {}", fl, body)
}

/// counted repetitions in the AST: (min, max, minimal match length of operand in chars)
fn counted_reps(p: &str) -> Result<Vec<(u32, u32, usize)>, String> {
    use regex_syntax::ast::{self, Ast};
    let ast = ast::parse::Parser::new().parse(p).map_err(|e| e.to_string())?;
    fn minlen(a: &Ast) -> usize {
        match a {
            Ast::Empty(_) | Ast::Flags(_) | Ast::Assertion(_) => 0,
            Ast::Literal(_) | Ast::Dot(_) | Ast::ClassUnicode(_) | Ast::ClassPerl(_) | Ast::ClassBracketed(_) => 1,
            Ast::Repetition(r) => {
                let inner = minlen(&r.ast);
                match &r.op.kind {
                    ast::RepetitionKind::ZeroOrOne | ast::RepetitionKind::ZeroOrMore => 0,
                    ast::RepetitionKind::OneOrMore => inner,
                    ast::RepetitionKind::Range(rg) => match rg {
                        ast::RepetitionRange::Exactly(n) => inner * n.clone() as usize,
                        ast::RepetitionRange::AtLeast(n) => inner * n.clone() as usize,
                        ast::RepetitionRange::Bounded(m, _) => inner * m.clone() as usize,
                    },
                }
            }
            Ast::Group(g) => minlen(&g.ast),
            Ast::Alternation(al) => al.asts.iter().map(minlen).min().unwrap_or(0),
            Ast::Concat(c) => c.asts.iter().map(minlen).sum(),
        }
    }
    fn walk(a: &Ast, out: &mut Vec<(u32, u32, usize)>) {
        match a {
            Ast::Repetition(r) => {
                if let ast::RepetitionKind::Range(rg) = &r.op.kind {
                    let (m, n) = match rg {
                        ast::RepetitionRange::Exactly(n) => (*n, *n),
                        ast::RepetitionRange::AtLeast(n) => (*n, u32::MAX),
                        ast::RepetitionRange::Bounded(m, n) => (*m, *n),
                    };
                    out.push((m, n, minlen(&r.ast)));
                }
                walk(&r.ast, out)
            }
            Ast::Group(g) => walk(&g.ast, out),
            Ast::Alternation(al) => al.asts.iter().for_each(|x| walk(x, out)),
            Ast::Concat(c) => c.asts.iter().for_each(|x| walk(x, out)),
            _ => {}
        }
    }
    let mut out = vec![];
    walk(&ast, &mut out);
    Ok(out)
}

/// group kinds in the AST: (capturing count, non-capturing count)
fn group_kinds(p: &str) -> Result<(usize, usize), String> {
    use regex_syntax::ast::{self, Ast};
    let ast = ast::parse::Parser::new().parse(p).map_err(|e| e.to_string())?;
    fn walk(a: &Ast, c: &mut (usize, usize)) {
        match a {
            Ast::Group(g) => {
                match g.kind {
                    ast::GroupKind::CaptureIndex(_) | ast::GroupKind::CaptureName { .. } => c.0 += 1,
                    ast::GroupKind::NonCapturing(_) => c.1 += 1,
                }
                walk(&g.ast, c)
            }
            Ast::Repetition(r) => walk(&r.ast, c),
            Ast::Alternation(al) => al.asts.iter().for_each(|x| walk(x, c)),
            Ast::Concat(cc) => cc.asts.iter().for_each(|x| walk(x, c)),
            _ => {}
        }
    }
    let mut c = (0, 0);
    walk(&ast, &mut c);
    Ok(c)
}

// ------------------------------------------------------------------------------------------
// Per-case evaluation
// ------------------------------------------------------------------------------------------

fn oracle_entry(s: &str) -> Value {
    let seg: Vec<Value> = UnicodeSegmentation::graphemes(s, true)
        .map(|g| json!(g.chars().count()))
        .collect();
    let cat: Vec<Value> = s
        .chars()
        .map(|c| {
            let k = GeneralCategory::of(c);
            json!(k.is_mark() || k.is_other())
        })
        .collect();
    json!({"s": cps(s), "lower": cps(&s.to_lowercase()), "seg": seg, "cat": cat})
}

fn run_case(case: &Value, eng: &Engine) -> Value {
    let id = case["id"].clone();
    let tcs: Vec<String> = case["tcs"].as_array().unwrap().iter().map(str_of).collect();
    let f = parse_flags(case);
    let want_lang = case["lang"].as_bool().unwrap_or(false);
    let (res, trace) = traced_build(&tcs, &f);

    // oracle data for the model: every input string and its lower-cased form
    let mut strings: BTreeSet<String> = BTreeSet::new();
    for t in &tcs {
        strings.insert(t.clone());
        strings.insert(t.to_lowercase());
    }
    let oracle: Vec<Value> = strings.iter().map(|s| oracle_entry(s)).collect();
    // lower-casing idempotence (assumption `lower_idem` of the model)
    let lower_idem = tcs.iter().all(|t| {
        let l = t.to_lowercase();
        l.to_lowercase() == l
    });

    let mut v = BTreeMap::<String, Value>::new();
    let out = match &res {
        Ok(o) => o.clone(),
        Err(m) => {
            return json!({"id": id, "panic": m, "trace": trace_json(&trace), "oracle": oracle,
                          "lower_idem": lower_idem, "verdicts": {}});
        }
    };
    let presentable = !f.sur && !f.colour;
    let stripped = if f.colour { strip_sgr(&out) } else { out.clone() };
    // the pattern the regex crate can be asked about
    let judged: Option<String> = if f.sur { Some(decode_surrogates(&stripped)) } else { Some(stripped.clone()) };

    // classification of the known-finding classes (DESIGN §3.7)
    let k4 = tcs.iter().any(|t| t.is_empty()) && tcs.iter().any(|t| !t.is_empty());
    let merged = trace
        .iter()
        .find(|(s, _)| *s == "trie")
        .map(|(_, t)| has_range_edge(t))
        .unwrap_or(false);
    v.insert("k4".into(), json!(k4));
    v.insert("k1_merge".into(), json!(merged));

    // C07 compile
    let compiles = regex::RegexBuilder::new(&stripped).build().map_err(|e| e.to_string());
    if presentable {
        v.insert("compile".into(), match &compiles { Ok(_) => json!(true), Err(e) => json!(e) });
        // known finding K5: the pattern is valid but larger than the regex crate's DEFAULT size limit (10 MiB);
        // it compiles once the limit is raised
        if let Err(e) = &compiles {
            if e.contains("size limit") {
                let big = regex::RegexBuilder::new(&stripped).size_limit(1 << 32).dfa_size_limit(1 << 32).build();
                v.insert("compile_with_raised_limit".into(), json!(big.is_ok()));
            }
        }
    }
    // ASCII (C11)
    if f.esc {
        v.insert("ascii".into(), json!(stripped.is_ascii()));
    }
    // C15: colour only adds SGR
    if f.colour {
        let mut g = f.clone();
        g.colour = false;
        match plain_build(&tcs, &g) {
            Ok(p) => {
                v.insert("colour_strip_eq".into(), json!(p == stripped));
                if p != stripped {
                    v.insert("colour_plain".into(), cps(&p));
                }
            }
            Err(m) => {
                v.insert("colour_strip_eq".into(), json!(format!("plain build panicked: {m}")));
            }
        }
    }
    if let Some(j) = &judged {
        // C01 soundness: every original test case matched in full (PikeVM judge)
        let mut unmatched = vec![];
        let mut judge_err = None;
        for t in &tcs {
            match pikevm_full(j, t) {
                Ok(true) => {}
                Ok(false) => unmatched.push(cps(t)),
                Err(e) => {
                    judge_err = Some(e);
                    break;
                }
            }
        }
        v.insert("unmatched".into(), Value::Array(unmatched));
        if let Some(e) = judge_err {
            v.insert("judge_error".into(), json!(e));
        } else {
            // C08 search: leftmost-first find spans the whole test case
            if f.no_start || f.no_end {
                let mut bad = vec![];
                let mut incons = vec![];
                for t in &tcs {
                    if let Ok(sp) = pikevm_find(j, t) {
                        if sp != Some((0, t.len())) {
                            // class of known finding K2: a proper prefix of t is itself in the language
                            let k2 = t
                                .char_indices()
                                .map(|(i, _)| &t[..i])
                                .any(|p| pikevm_full(j, p).unwrap_or(false));
                            bad.push(json!({"t": cps(t), "span": format!("{sp:?}"), "k2": k2}));
                        }
                        if let Ok(re) = &compiles {
                            if !f.sur {
                                let m = re.find(t).map(|m| (m.start(), m.end()));
                                if m != sp {
                                    incons.push(json!({"t": cps(t), "pikevm": format!("{sp:?}"), "meta": format!("{m:?}")}));
                                }
                            }
                        }
                    }
                }
                v.insert("find_bad".into(), Value::Array(bad));
                if !incons.is_empty() {
                    v.insert("engine_inconsistencies".into(), Value::Array(incons));
                }
            }
            // C08, second clause: disabling anchors does not change which strings the body matches in full —
            // language of this output against the output of the same build with both anchors in place
            if case["lang_anchor"].as_bool().unwrap_or(false) && (f.no_start || f.no_end) {
                let mut g = f.clone();
                g.no_start = false;
                g.no_end = false;
                g.colour = false;
                match plain_build(&tcs, &g) {
                    Ok(p2) => {
                        let j2 = if g.sur { decode_surrogates(&p2) } else { p2.clone() };
                        match lang_diff(j, &j2) {
                            Ok(None) => {
                                v.insert("lang_anchor".into(), json!("eq"));
                            }
                            Ok(Some((w, out_accepts))) => {
                                v.insert(
                                    "lang_anchor".into(),
                                    json!({"witness": String::from_utf8_lossy(&w).chars().map(|c| c as u32).collect::<Vec<_>>(),
                                           "out_accepts": out_accepts, "anchored": cps(&p2)}),
                                );
                            }
                            Err(e) => {
                                v.insert("lang_anchor".into(), json!({"undecided": e}));
                            }
                        }
                    }
                    Err(m) => {
                        v.insert("lang_anchor".into(), json!({"undecided": format!("anchored build panicked: {m}")}));
                    }
                }
            }
            // C13 thresholds
            match counted_reps(j) {
                Ok(reps) => {
                    v.insert(
                        "counted".into(),
                        Value::Array(reps.iter().map(|(m, n, l)| json!([m, n, l])).collect()),
                    );
                }
                Err(e) => {
                    v.insert("ast_error".into(), json!(e));
                }
            }
            if let Ok((c, n)) = group_kinds(j) {
                v.insert("groups".into(), json!([c, n]));
            }
            // language equality with the independent specification (C02–C06, C11)
            if want_lang {
                let spec = eng.spec(&f, &tcs);
                match lang_diff(j, &spec) {
                    Ok(None) => {
                        v.insert("lang".into(), json!("eq"));
                    }
                    Ok(Some((w, out_accepts))) => {
                        v.insert(
                            "lang".into(),
                            json!({"witness": String::from_utf8_lossy(&w).chars().map(|c| c as u32).collect::<Vec<_>>(),
                                   "witness_bytes": w, "out_accepts": out_accepts}),
                        );
                    }
                    Err(e) => {
                        v.insert("lang".into(), json!({"undecided": e}));
                    }
                }
            }
        }
    }
    json!({"id": id, "out": cps(&out), "trace": trace_json(&trace), "oracle": oracle,
           "lower_idem": lower_idem, "verdicts": v})
}

fn has_range_edge(trie: &str) -> bool {
    // an edge label G(chars|reps|min|max) with min != max (only top-level of each edge matters,
    // nested reps always have min = max)
    let mut rest = trie;
    while let Some(p) = rest.find('|') {
        // look for "|<min>|<max>)" patterns
        let tail = &rest[p + 1..];
        let mut it = tail.splitn(2, ')');
        let head = it.next().unwrap_or("");
        let parts: Vec<&str> = head.split('|').collect();
        if parts.len() >= 2 {
            let a = parts[parts.len() - 2].parse::<u32>();
            let b = parts[parts.len() - 1].parse::<u32>();
            if let (Ok(a), Ok(b)) = (a, b) {
                if a != b {
                    return true;
                }
            }
        }
        rest = tail;
    }
    false
}

fn trace_json(t: &[(&'static str, String)]) -> Value {
    Value::Array(t.iter().map(|(s, x)| json!([s, x])).collect())
}

// ------------------------------------------------------------------------------------------
// dump: tables measured from the compiled code and the linked crates
// ------------------------------------------------------------------------------------------

fn ranges_of(pred: impl Fn(char) -> bool) -> Vec<(u32, u32)> {
    let mut out: Vec<(u32, u32)> = vec![];
    for cp in 0..=0x10ffffu32 {
        if let Some(c) = char::from_u32(cp) {
            if pred(c) {
                match out.last_mut() {
                    Some(l) if l.1 + 1 == cp => l.1 = cp,
                    _ => out.push((cp, cp)),
                }
            }
        }
    }
    out
}

fn dump() -> Value {
    let eng = Engine::new();
    let r = |v: &Vec<(u32, u32)>| Value::Array(v.iter().map(|(a, b)| json!([a, b])).collect());
    // single-code-point lower-casing: (c, lower) for every c whose to_lowercase is one other cp;
    // multi: c whose to_lowercase has several code points
    let mut lower_single = vec![];
    let mut lower_multi = vec![];
    for cp in 0..=0x10ffffu32 {
        if let Some(c) = char::from_u32(cp) {
            let l: Vec<char> = c.to_lowercase().collect();
            if l.len() == 1 {
                if l[0] != c {
                    lower_single.push(json!([cp, l[0] as u32]));
                }
            } else {
                lower_multi.push(json!(cp));
            }
        }
    }
    // simple case folding classes of the regex crate: for every scalar c, the class of (?i:c)
    // is recorded only when it has more than one member: (c, [members])
    let mut fold = vec![];
    {
        use regex_syntax::hir::{ClassUnicode, ClassUnicodeRange};
        for cp in 0..=0x10ffffu32 {
            if let Some(c) = char::from_u32(cp) {
                let mut cls = ClassUnicode::new([ClassUnicodeRange::new(c, c)]);
                cls.case_fold_simple();
                let members: Vec<u32> = cls
                    .iter()
                    .flat_map(|r| (r.start() as u32)..=(r.end() as u32))
                    .collect();
                if members.len() > 1 {
                    fold.push(json!([cp, members]));
                }
            }
        }
    }
    json!({
        "engine_d": r(&eng.d), "engine_w": r(&eng.w), "engine_s": r(&eng.s),
        "engine_D": r(&class_ranges(r"\D")), "engine_W": r(&class_ranges(r"\W")), "engine_S": r(&class_ranges(r"\S")),
        "grex_d": r(&ranges_of(|c| grex::verif::classify(c).0)),
        "grex_w": r(&ranges_of(|c| grex::verif::classify(c).1)),
        "grex_s": r(&ranges_of(|c| grex::verif::classify(c).2)),
        "is_whitespace": r(&ranges_of(|c| c.is_whitespace())),
        "mark_or_other": r(&ranges_of(|c| { let k = GeneralCategory::of(c); k.is_mark() || k.is_other() })),
        "lower_single": lower_single, "lower_multi": lower_multi, "fold": fold,
    })
}

// ------------------------------------------------------------------------------------------
// main
// ------------------------------------------------------------------------------------------

// ------------------------------------------------------------------------------------------
// hunt: native bounded-exhaustive search for a failing input (used after a proof/correspondence
// break, and by the thorough tiers). Enumerates structured families of test-case sets in-process
// (no JSON per case), judges each with a cheap implementation-side oracle and prints only the hits
// as ordinary cases; the caller re-judges every hit through the normal pipeline (PikeVM, model,
// known-finding classes). A search tool, never a proof.
// ------------------------------------------------------------------------------------------

fn words_upto(alpha: &[char], maxlen: usize) -> Vec<String> {
    let mut out: Vec<String> = vec![];
    let mut layer: Vec<String> = vec![String::new()];
    for _ in 0..maxlen {
        let mut next = vec![];
        for w in &layer {
            for &c in alpha {
                let mut x = w.clone();
                x.push(c);
                next.push(x);
            }
        }
        out.extend(next.iter().cloned());
        layer = next;
    }
    out
}

fn combos(n: usize, k: usize) -> Vec<Vec<usize>> {
    fn rec(start: usize, n: usize, k: usize, cur: &mut Vec<usize>, out: &mut Vec<Vec<usize>>) {
        if cur.len() == k {
            out.push(cur.clone());
            return;
        }
        for i in start..n {
            cur.push(i);
            rec(i + 1, n, k, cur, out);
            cur.pop();
        }
    }
    let mut out = vec![];
    rec(0, n, k, &mut vec![], &mut out);
    out
}

/// one hit-test; Some(kind) when the implementation's output fails the oracle on this set
fn hunt_judge(tcs: &[String], f: &Flags, oracle: &str, eng: &Engine) -> Option<String> {
    let out = match plain_build(tcs, f) {
        Ok(o) => o,
        Err(m) => return Some(format!("panic: {m}")),
    };
    let re = match regex::Regex::new(&anchored_whole(&out)) {
        Ok(r) => r,
        Err(_) => return Some("does not compile".into()),
    };
    // anchored on both sides: is_match is a whole-string match
    for t in tcs {
        if !re.is_match(t) {
            return Some("unmatched".into());
        }
    }
    if oracle == "lang" {
        let spec = eng.spec(f, tcs);
        if let Ok(Some(_)) = lang_diff(&out, &spec) {
            return Some("lang".into());
        }
    }
    None
}

fn hunt(cfg: &Value) -> Value {
    let family = cfg["family"].as_str().unwrap_or("sib").to_string();
    let alpha: Vec<char> = cfg["alpha"].as_str().unwrap_or("abc").chars().collect();
    let oracle = cfg["oracle"].as_str().unwrap_or("unmatched").to_string();
    let budget = std::time::Duration::from_secs_f64(cfg["budget_s"].as_f64().unwrap_or(30.0));
    let max_hits = cfg["max_hits"].as_u64().unwrap_or(20) as usize;
    let nthreads: usize = std::env::var("GREXV_THREADS").ok().and_then(|s| s.parse().ok()).unwrap_or(16);
    let f = parse_flags(cfg);
    let eng = Engine::new();
    let t0 = std::time::Instant::now();
    let count = std::sync::atomic::AtomicU64::new(0);
    let timed_out = std::sync::atomic::AtomicBool::new(false);
    let hits: std::sync::Mutex<Vec<(Vec<String>, String)>> = std::sync::Mutex::new(vec![]);
    // outer work items; every thread takes the items with index = thread (mod nthreads)
    let maxlen = cfg["maxlen"].as_u64().unwrap_or(3) as usize;
    let kmax = cfg["kmax"].as_u64().unwrap_or(3) as usize;
    let base = words_upto(&alpha, maxlen);
    let ext = words_upto(&alpha, maxlen + 1);
    let outer: Vec<Vec<usize>> = match family.as_str() {
        // sib: two sibling branches x·S and y·S over a common pool S (2..kmax suffixes), optionally the prefixes
        // themselves, plus ONE extra word in one branch (any suffix up to maxlen+1): the shape on which a wrong
        // merge of two almost-equivalent states loses or adds a word
        "sib" => (2..=kmax).flat_map(|k| combos(base.len(), k)).collect(),
        // sub: every subset with 2..kmax elements of the words up to maxlen
        _ => (2..=kmax).flat_map(|k| combos(base.len(), k)).collect(),
    };
    // rand: uniformly drawn subsets (3..=7 words) of the words up to maxlen+1, one xorshift stream per thread, until the
    // budget is used; finds inputs of rate >= 1e-5 within seconds (seed C02f: a printing rule wrong for one shape of
    // five related words of length <= 4)
    if family == "rand" {
        let seed0 = cfg["seed"].as_u64().unwrap_or(1);
        std::thread::scope(|sc| {
            for th in 0..nthreads {
                let (ext, f, eng, hits, count, oracle) = (&ext, &f, &eng, &hits, &count, &oracle);
                sc.spawn(move || {
                    let mut x: u64 = seed0.wrapping_mul(0x9E3779B97F4A7C15).wrapping_add(th as u64 + 1) | 1;
                    let mut next = move || {
                        x ^= x << 13;
                        x ^= x >> 7;
                        x ^= x << 17;
                        x
                    };
                    while t0.elapsed() < budget {
                        let k = 3 + (next() % 5) as usize;
                        let mut tcs: Vec<String> = vec![];
                        while tcs.len() < k {
                            // shorter words more often: length class first, then a word of that class
                            let w = &ext[(next() % ext.len() as u64) as usize];
                            let w = if next() % 3 == 0 { w[..w.len().min(1 + (next() % 3) as usize)].to_string() } else { w.clone() };
                            if !tcs.contains(&w) {
                                tcs.push(w);
                            }
                        }
                        count.fetch_add(1, std::sync::atomic::Ordering::Relaxed);
                        let r = catch_unwind(AssertUnwindSafe(|| hunt_judge(&tcs, f, oracle, eng)))
                            .unwrap_or_else(|e| Some(format!("harness panic: {}", panic_msg(e))));
                        if let Some(kind) = r {
                            let mut h = hits.lock().unwrap();
                            h.push((tcs, kind));
                            if h.len() >= max_hits {
                                break;
                            }
                        }
                        if hits.lock().unwrap().len() >= max_hits {
                            break;
                        }
                    }
                });
            }
        });
        let hits = hits.into_inner().unwrap();
        return json!({
            "family": family, "alpha": alpha.iter().collect::<String>(), "oracle": oracle, "f": cfg["f"], "mr": f.mr, "ms": f.ms,
            "maxlen": maxlen, "evaluated": count.load(std::sync::atomic::Ordering::SeqCst), "exhaustive": false,
            "elapsed_s": t0.elapsed().as_secs_f64(),
            "hits": hits.iter().map(|(tcs, kind)| json!({"tcs": tcs.iter().map(|t| cps(t)).collect::<Vec<_>>(), "kind": kind})).collect::<Vec<_>>(),
        });
    }
    let total_outer = outer.len();
    let done_outer = std::sync::atomic::AtomicUsize::new(0);
    std::thread::scope(|sc| {
        for th in 0..nthreads {
            let (outer, base, ext, f, eng, hits, count, timed_out, oracle, family, done_outer) =
                (&outer, &base, &ext, &f, &eng, &hits, &count, &timed_out, &oracle, &family, &done_outer);
            sc.spawn(move || {
                let mut i = th;
                'outer: while i < outer.len() {
                    if t0.elapsed() > budget {
                        timed_out.store(true, std::sync::atomic::Ordering::SeqCst);
                        break;
                    }
                    let pool: Vec<&String> = outer[i].iter().map(|&j| &base[j]).collect();
                    let mut try_set = |tcs: Vec<String>| -> bool {
                        count.fetch_add(1, std::sync::atomic::Ordering::Relaxed);
                        let r = catch_unwind(AssertUnwindSafe(|| hunt_judge(&tcs, f, oracle, eng)))
                            .unwrap_or_else(|e| Some(format!("harness panic: {}", panic_msg(e))));
                        if let Some(kind) = r {
                            let mut h = hits.lock().unwrap();
                            h.push((tcs, kind));
                            return h.len() >= max_hits;
                        }
                        false
                    };
                    if family == "sib" {
                        for with_prefixes in [false, true] {
                            let mut common: Vec<String> = vec![];
                            for p in ["x", "y"] {
                                if with_prefixes {
                                    common.push(p.to_string());
                                }
                                for s in &pool {
                                    common.push(format!("{p}{s}"));
                                }
                            }
                            for e in ext.iter() {
                                for p in ["x", "y"] {
                                    let w = format!("{p}{e}");
                                    if common.contains(&w) {
                                        continue;
                                    }
                                    let mut tcs = common.clone();
                                    tcs.push(w);
                                    if try_set(tcs) {
                                        break 'outer;
                                    }
                                }
                            }
                        }
                    } else {
                        let tcs: Vec<String> = pool.iter().map(|s| (*s).clone()).collect();
                        if try_set(tcs) {
                            break 'outer;
                        }
                    }
                    done_outer.fetch_add(1, std::sync::atomic::Ordering::Relaxed);
                    i += nthreads;
                }
            });
        }
    });
    let hits = hits.into_inner().unwrap();
    let to = timed_out.load(std::sync::atomic::Ordering::SeqCst);
    json!({
        "family": family, "alpha": alpha.iter().collect::<String>(), "oracle": oracle, "f": cfg["f"], "mr": f.mr, "ms": f.ms,
        "maxlen": maxlen, "kmax": kmax,
        "evaluated": count.load(std::sync::atomic::Ordering::SeqCst),
        "outer_total": total_outer, "outer_done": done_outer.load(std::sync::atomic::Ordering::SeqCst),
        "exhaustive": !to && hits.len() < max_hits,
        "elapsed_s": t0.elapsed().as_secs_f64(),
        "hits": hits.iter().map(|(tcs, kind)| json!({"tcs": tcs.iter().map(|t| cps(t)).collect::<Vec<_>>(), "kind": kind})).collect::<Vec<_>>(),
    })
}

fn main() {
    std::panic::set_hook(Box::new(|_| {}));
    let args: Vec<String> = std::env::args().collect();
    let cmd = args.get(1).map(|s| s.as_str()).unwrap_or("run");
    let stdin = std::io::stdin();
    let stdout = std::io::stdout();
    let mut w = std::io::BufWriter::new(stdout.lock());
    match cmd {
        "dump" => {
            writeln!(w, "{}", dump()).unwrap();
        }
        "run" => {
            let eng = Engine::new();
            let lines: Vec<String> = stdin.lock().lines().map(|l| l.unwrap()).collect();
            let nthreads: usize = std::env::var("GREXV_THREADS").ok().and_then(|s| s.parse().ok()).unwrap_or(16);
            let results: Vec<std::sync::Mutex<Option<String>>> =
                lines.iter().map(|_| std::sync::Mutex::new(None)).collect();
            let next = std::sync::atomic::AtomicUsize::new(0);
            std::thread::scope(|sc| {
                for _ in 0..nthreads {
                    sc.spawn(|| loop {
                        let i = next.fetch_add(1, std::sync::atomic::Ordering::SeqCst);
                        if i >= lines.len() {
                            break;
                        }
                        if lines[i].trim().is_empty() {
                            continue;
                        }
                        let case: Value = serde_json::from_str(&lines[i]).expect("case json");
                        let r = catch_unwind(AssertUnwindSafe(|| run_case(&case, &eng)))
                            .unwrap_or_else(|e| json!({"id": case["id"], "harness_panic": panic_msg(e)}));
                        *results[i].lock().unwrap() = Some(r.to_string());
                    });
                }
            });
            for r in results {
                if let Some(s) = r.into_inner().unwrap() {
                    writeln!(w, "{s}").unwrap();
                }
            }
        }
        "perm" => {
            for l in stdin.lock().lines() {
                let l = l.unwrap();
                if l.trim().is_empty() { continue; }
                let case: Value = serde_json::from_str(&l).expect("case json");
                let r = catch_unwind(AssertUnwindSafe(|| perm_case(&case)))
                    .unwrap_or_else(|e| json!({"id": case["id"], "harness_panic": panic_msg(e)}));
                writeln!(w, "{r}").unwrap();
            }
        }
        "wasm" => {
            for l in stdin.lock().lines() {
                let l = l.unwrap();
                if l.trim().is_empty() { continue; }
                let case: Value = serde_json::from_str(&l).expect("case json");
                writeln!(w, "{}", wasm_case(&case)).unwrap();
            }
        }
        "ast" => {
            // one pattern per line, as a JSON array of code points
            for l in stdin.lock().lines() {
                let v: Value = serde_json::from_str(&l.unwrap()).unwrap();
                writeln!(w, "{}", ast_sexpr(&str_of(&v))).unwrap();
            }
        }
        "match" => {
            // {"p": pattern cps, "hs": [haystack cps...]} -> whole-haystack match and leftmost-first find (char offsets), PikeVM
            for l in stdin.lock().lines() {
                let v: Value = serde_json::from_str(&l.unwrap()).unwrap();
                let p = str_of(&v["p"]);
                let mut full = vec![];
                let mut find = vec![];
                // what grex's own self-check looks at: the optimised engine's number of matches in the haystack
                let meta = regex::Regex::new(&p);
                let counts: Vec<Value> = v["hs"].as_array().unwrap().iter().map(|h| match &meta {
                    Ok(re) => json!(re.find_iter(&str_of(h)).count()),
                    Err(_) => Value::Null,
                }).collect();
                let vm = PikeVM::new(&p);
                let vmf = PikeVM::new(&anchored_whole(&p));
                // the same count by the reference engine (what Engine/Prio.v find_iter_count models)
                let vm_counts: Vec<Value> = v["hs"].as_array().unwrap().iter().map(|h| match &vm {
                    Ok(re) => { let mut c = re.create_cache(); json!(re.find_iter(&mut c, &str_of(h)).count()) }
                    Err(_) => Value::Null,
                }).collect();
                for h in v["hs"].as_array().unwrap() {
                    let hs = str_of(h);
                    match (&vm, &vmf) {
                        (Ok(re), Ok(ref_)) => {
                            let mut c = ref_.create_cache();
                            full.push(json!(ref_.is_match(&mut c, &hs)));
                            let mut c2 = re.create_cache();
                            find.push(match re.find(&mut c2, &hs) {
                                Some(mm) => json!([hs[..mm.start()].chars().count(), hs[..mm.end()].chars().count()]),
                                None => Value::Null,
                            });
                        }
                        _ => { full.push(Value::Null); find.push(Value::Null); }
                    }
                }
                writeln!(w, "{}", json!({"full": full, "find": find, "meta_count": counts, "vm_count": vm_counts})).unwrap();
            }
        }
        "fromfile" => {
            // RegExpBuilder::from_file(path) for each path read from stdin: the test cases it holds, or the panic message
            for l in stdin.lock().lines() {
                let path = l.unwrap();
                let r = catch_unwind(AssertUnwindSafe(|| {
                    let b = RegExpBuilder::from_file(path.trim());
                    grex::verif::builder_state(&b)
                }));
                match r {
                    Ok(st) => writeln!(w, "{}", json!({"state": st})).unwrap(),
                    Err(e) => writeln!(w, "{}", json!({"panic": panic_msg(e)})).unwrap(),
                }
            }
        }
        "hunt" => {
            // one JSON configuration per line; one JSON result per line
            for l in stdin.lock().lines() {
                let l = l.unwrap();
                if l.trim().is_empty() { continue; }
                let cfg: Value = serde_json::from_str(&l).expect("hunt json");
                writeln!(w, "{}", hunt(&cfg)).unwrap();
            }
        }
        "setters" => {
            writeln!(w, "{}", setters_dump()).unwrap();
        }
        "lines" => {
            // str::lines on each input (code point arrays), for validating the Coq model of lines
            for l in stdin.lock().lines() {
                let v: Value = serde_json::from_str(&l.unwrap()).unwrap();
                let s = str_of(&v);
                let ls: Vec<Value> = s.lines().map(cps).collect();
                writeln!(w, "{}", Value::Array(ls)).unwrap();
            }
        }
        other => {
            eprintln!("unknown subcommand {other}");
            std::process::exit(2);
        }
    }
}
