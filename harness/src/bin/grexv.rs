//! grexv — runs the implementation (compiled from /repo's working tree with cfg(grex_verif))
//! on cases read from stdin and prints, per case, stage snapshots, oracle data for the Coq
//! model (lower-casing, grapheme segmentation, general categories) and property verdicts
//! judged by the regex crate's reference engines (PikeVM, dense DFA).
//!
//! Subcommands:  run | dump | lines | wasm | threads

use grex::RegExpBuilder;
use regex_automata::dfa::{dense, Automaton, StartKind};
use regex_automata::nfa::thompson::pikevm::PikeVM;
use regex_automata::util::primitives::StateID;
use regex_automata::{Anchored, Input};
use serde_json::{json, Value};
use std::collections::{BTreeMap, BTreeSet, HashMap, VecDeque};
use std::io::{BufRead, Write};
use std::panic::{catch_unwind, AssertUnwindSafe};
use unic_ucd_category::GeneralCategory;
use unicode_segmentation::UnicodeSegmentation;

#[derive(Clone, Debug, Default)]
struct Flags {
    d: bool,
    nd: bool,
    s: bool,
    ns_: bool,
    w: bool,
    nw: bool,
    rep: bool,
    ci: bool,
    cap: bool,
    esc: bool,
    sur: bool,
    verbose: bool,
    colour: bool,
    no_start: bool,
    no_end: bool,
    mr: u32,
    ms: u32,
}

fn parse_flags(v: &Value) -> Flags {
    let mut f = Flags {
        mr: v["mr"].as_u64().unwrap_or(1) as u32,
        ms: v["ms"].as_u64().unwrap_or(1) as u32,
        ..Default::default()
    };
    for name in v["f"].as_str().unwrap_or("").split(',') {
        match name {
            "d" => f.d = true,
            "D" => f.nd = true,
            "s" => f.s = true,
            "S" => f.ns_ = true,
            "w" => f.w = true,
            "W" => f.nw = true,
            "r" => f.rep = true,
            "i" => f.ci = true,
            "g" => f.cap = true,
            "e" => f.esc = true,
            "E" => {
                f.esc = true;
                f.sur = true
            }
            "x" => f.verbose = true,
            "c" => f.colour = true,
            "ns" => f.no_start = true,
            "ne" => f.no_end = true,
            "" => {}
            other => panic!("unknown flag {other}"),
        }
    }
    f
}

fn mk_builder(tcs: &[String], f: &Flags) -> RegExpBuilder {
    let mut b = RegExpBuilder::from(tcs);
    if f.d {
        b.with_conversion_of_digits();
    }
    if f.nd {
        b.with_conversion_of_non_digits();
    }
    if f.s {
        b.with_conversion_of_whitespace();
    }
    if f.ns_ {
        b.with_conversion_of_non_whitespace();
    }
    if f.w {
        b.with_conversion_of_words();
    }
    if f.nw {
        b.with_conversion_of_non_words();
    }
    if f.rep {
        b.with_conversion_of_repetitions();
    }
    if f.ci {
        b.with_case_insensitive_matching();
    }
    if f.cap {
        b.with_capturing_groups();
    }
    if f.esc {
        b.with_escaping_of_non_ascii_chars(f.sur);
    }
    if f.verbose {
        b.with_verbose_mode();
    }
    if f.no_start {
        b.without_start_anchor();
    }
    if f.no_end {
        b.without_end_anchor();
    }
    if f.colour {
        b.with_syntax_highlighting();
    }
    b.with_minimum_repetitions(f.mr);
    b.with_minimum_substring_length(f.ms);
    b
}

fn cps(s: &str) -> Value {
    Value::Array(s.chars().map(|c| json!(c as u32)).collect())
}

fn str_of(v: &Value) -> String {
    v.as_array()
        .unwrap()
        .iter()
        .map(|c| char::from_u32(c.as_u64().unwrap() as u32).expect("scalar value"))
        .collect()
}

fn panic_msg(e: Box<dyn std::any::Any + Send>) -> String {
    if let Some(s) = e.downcast_ref::<&str>() {
        s.to_string()
    } else if let Some(s) = e.downcast_ref::<String>() {
        s.clone()
    } else {
        "<non-string panic>".to_string()
    }
}

/// Runs build() with tracing; returns (output or panic message, trace).
fn traced_build(tcs: &[String], f: &Flags) -> (Result<String, String>, Vec<(&'static str, String)>) {
    grex::verif::start_trace();
    let r = catch_unwind(AssertUnwindSafe(|| mk_builder(tcs, f).build()));
    let trace = grex::verif::take_trace();
    (r.map_err(panic_msg), trace)
}

fn plain_build(tcs: &[String], f: &Flags) -> Result<String, String> {
    catch_unwind(AssertUnwindSafe(|| mk_builder(tcs, f).build())).map_err(panic_msg)
}

// ------------------------------------------------------------------------------------------
// Judges: regex crate reference engines
// ------------------------------------------------------------------------------------------

fn strip_sgr(s: &str) -> String {
    // independent scanner for ESC [ (digits ; digits | 0) m
    let b: Vec<char> = s.chars().collect();
    let mut out = String::new();
    let mut i = 0;
    while i < b.len() {
        if b[i] == '\u{1b}' && i + 1 < b.len() && b[i + 1] == '[' {
            let mut j = i + 2;
            let d0 = j;
            while j < b.len() && b[j].is_ascii_digit() {
                j += 1;
            }
            let first: String = b[d0..j].iter().collect();
            if j < b.len() && b[j] == 'm' && first == "0" {
                i = j + 1;
                continue;
            }
            if j > d0 && j < b.len() && b[j] == ';' {
                let mut k = j + 1;
                let d1 = k;
                while k < b.len() && b[k].is_ascii_digit() {
                    k += 1;
                }
                if k > d1 && k < b.len() && b[k] == 'm' {
                    i = k + 1;
                    continue;
                }
            }
        }
        out.push(b[i]);
        i += 1;
    }
    out
}

fn full_pattern(p: &str) -> String {
    format!("^(?:{p}\n)$") // the newline ends a trailing `#` comment under (?x); it is ignored ...
}

/// Wraps pattern so that it must match the whole haystack. A verbose-mode pattern keeps its own
/// flag group; we must not add raw whitespace to a non-verbose pattern.
fn anchored_whole(p: &str) -> String {
    if p.starts_with("(?x)") || p.starts_with("(?ix)") {
        full_pattern(p)
    } else {
        format!("^(?:{p})$")
    }
}

fn build_dense(p: &str) -> Result<dense::DFA<Vec<u32>>, String> {
    dense::Builder::new()
        .configure(
            dense::Config::new()
                .start_kind(StartKind::Anchored)
                .dfa_size_limit(Some(64 << 20))
                .determinize_size_limit(Some(64 << 20)),
        )
        .build(&anchored_whole(p))
        .map_err(|e| e.to_string())
}

/// Language equality of two patterns (whole-haystack semantics) by breadth-first product of
/// their dense DFAs. Ok(None) = equal; Ok(Some(w)) = shortest distinguishing haystack (bytes,
/// and which side accepts it); Err = could not build a DFA.
fn lang_diff(a: &str, b: &str) -> Result<Option<(Vec<u8>, bool)>, String> {
    let da = build_dense(a).map_err(|e| format!("left: {e}"))?;
    let db = build_dense(b).map_err(|e| format!("right: {e}"))?;
    let inp = Input::new("").anchored(Anchored::Yes);
    let sa = da.start_state_forward(&inp).map_err(|e| e.to_string())?;
    let sb = db.start_state_forward(&inp).map_err(|e| e.to_string())?;
    let mut seen: HashMap<(StateID, StateID), Option<((StateID, StateID), u8)>> = HashMap::new();
    let mut q = VecDeque::new();
    seen.insert((sa, sb), None);
    q.push_back((sa, sb));
    while let Some((x, y)) = q.pop_front() {
        let ax = da.is_match_state(da.next_eoi_state(x));
        let ay = db.is_match_state(db.next_eoi_state(y));
        if ax != ay {
            let mut w = vec![];
            let mut cur = (x, y);
            while let Some(Some((prev, byte))) = seen.get(&cur) {
                w.push(*byte);
                cur = *prev;
            }
            w.reverse();
            return Ok(Some((w, ax)));
        }
        if da.is_dead_state(x) && db.is_dead_state(y) {
            continue;
        }
        for byte in 0..=255u8 {
            let nx = da.next_state(x, byte);
            let ny = db.next_state(y, byte);
            if da.is_dead_state(nx) && db.is_dead_state(ny) {
                continue;
            }
            if !seen.contains_key(&(nx, ny)) {
                seen.insert((nx, ny), Some(((x, y), byte)));
                q.push_back((nx, ny));
            }
        }
        if seen.len() > 4_000_000 {
            return Err("product too large".into());
        }
    }
    Ok(None)
}

fn pikevm_find(p: &str, hay: &str) -> Result<Option<(usize, usize)>, String> {
    let re = PikeVM::new(p).map_err(|e| e.to_string())?;
    let mut cache = re.create_cache();
    Ok(re.find(&mut cache, hay).map(|m| (m.start(), m.end())))
}

fn pikevm_full(p: &str, hay: &str) -> Result<bool, String> {
    let re = PikeVM::new(&anchored_whole(p)).map_err(|e| e.to_string())?;
    let mut cache = re.create_cache();
    Ok(re.is_match(&mut cache, hay))
}

// engine classes, straight from regex-syntax
fn class_ranges(p: &str) -> Vec<(u32, u32)> {
    use regex_syntax::hir::{Class, HirKind};
    let hir = regex_syntax::Parser::new().parse(p).unwrap();
    match hir.kind() {
        HirKind::Class(Class::Unicode(c)) => c
            .iter()
            .map(|r| (r.start() as u32, r.end() as u32))
            .collect(),
        k => panic!("not a class: {k:?}"),
    }
}

struct Engine {
    d: Vec<(u32, u32)>,
    w: Vec<(u32, u32)>,
    s: Vec<(u32, u32)>,
}

impl Engine {
    fn new() -> Self {
        Engine {
            d: class_ranges(r"\d"),
            w: class_ranges(r"\w"),
            s: class_ranges(r"\s"),
        }
    }
    fn mem(t: &[(u32, u32)], c: char) -> bool {
        let c = c as u32;
        t.binary_search_by(|&(a, b)| {
            if c < a {
                std::cmp::Ordering::Greater
            } else if c > b {
                std::cmp::Ordering::Less
            } else {
                std::cmp::Ordering::Equal
            }
        })
        .is_ok()
    }
    /// the token a code point is documented to become, judged by the *engine's* classes
    fn token(&self, f: &Flags, c: char) -> String {
        let (d, w, s) = (
            Self::mem(&self.d, c),
            Self::mem(&self.w, c),
            Self::mem(&self.s, c),
        );
        if f.d && d {
            r"\d".into()
        } else if f.w && w {
            r"\w".into()
        } else if f.s && s {
            r"\s".into()
        } else if f.nd && !d {
            r"\D".into()
        } else if f.nw && !w {
            r"\W".into()
        } else if f.ns_ && !s {
            r"\S".into()
        } else {
            lit(c)
        }
    }
    /// specification pattern: alternation of the ORIGINAL test cases, class tokens per flags,
    /// (?i) when case-insensitive. Independent of grex's tables, lower-casing and printing.
    fn spec(&self, f: &Flags, tcs: &[String]) -> String {
        let mut alts: Vec<String> = tcs
            .iter()
            .map(|t| t.chars().map(|c| self.token(f, c)).collect::<String>())
            .collect();
        alts.sort();
        alts.dedup();
        format!(
            "{}(?:{})",
            if f.ci { "(?i)" } else { "" },
            alts.iter()
                .map(|a| format!("(?:{a})"))
                .collect::<Vec<_>>()
                .join("|")
        )
    }
}

fn lit(c: char) -> String {
    format!("\\x{{{:x}}}", c as u32)
}

/// decode \u{hi}\u{lo} surrogate escape pairs into \u{cp}
fn decode_surrogates(p: &str) -> String {
    let re = regex::Regex::new(r"\\u\{(d[89ab][0-9a-f]{2})\}\\u\{(d[c-f][0-9a-f]{2})\}").unwrap();
    re.replace_all(p, |c: &regex::Captures| {
        let hi = u32::from_str_radix(&c[1], 16).unwrap();
        let lo = u32::from_str_radix(&c[2], 16).unwrap();
        format!("\\u{{{:x}}}", 0x10000 + ((hi - 0xd800) << 10) + (lo - 0xdc00))
    })
    .to_string()
}

/// counted repetitions in the AST: (min, max, minimal match length of operand in chars)
fn counted_reps(p: &str) -> Result<Vec<(u32, u32, usize)>, String> {
    use regex_syntax::ast::{self, Ast};
    let ast = ast::parse::Parser::new().parse(p).map_err(|e| e.to_string())?;
    fn minlen(a: &Ast) -> usize {
        match a {
            Ast::Empty(_) | Ast::Flags(_) | Ast::Assertion(_) => 0,
            Ast::Literal(_) | Ast::Dot(_) | Ast::ClassUnicode(_) | Ast::ClassPerl(_) | Ast::ClassBracketed(_) => 1,
            Ast::Repetition(r) => {
                let inner = minlen(&r.ast);
                match &r.op.kind {
                    ast::RepetitionKind::ZeroOrOne | ast::RepetitionKind::ZeroOrMore => 0,
                    ast::RepetitionKind::OneOrMore => inner,
                    ast::RepetitionKind::Range(rg) => match rg {
                        ast::RepetitionRange::Exactly(n) => inner * n.clone() as usize,
                        ast::RepetitionRange::AtLeast(n) => inner * n.clone() as usize,
                        ast::RepetitionRange::Bounded(m, _) => inner * m.clone() as usize,
                    },
                }
            }
            Ast::Group(g) => minlen(&g.ast),
            Ast::Alternation(al) => al.asts.iter().map(minlen).min().unwrap_or(0),
            Ast::Concat(c) => c.asts.iter().map(minlen).sum(),
        }
    }
    fn walk(a: &Ast, out: &mut Vec<(u32, u32, usize)>) {
        match a {
            Ast::Repetition(r) => {
                if let ast::RepetitionKind::Range(rg) = &r.op.kind {
                    let (m, n) = match rg {
                        ast::RepetitionRange::Exactly(n) => (*n, *n),
                        ast::RepetitionRange::AtLeast(n) => (*n, u32::MAX),
                        ast::RepetitionRange::Bounded(m, n) => (*m, *n),
                    };
                    out.push((m, n, minlen(&r.ast)));
                }
                walk(&r.ast, out)
            }
            Ast::Group(g) => walk(&g.ast, out),
            Ast::Alternation(al) => al.asts.iter().for_each(|x| walk(x, out)),
            Ast::Concat(c) => c.asts.iter().for_each(|x| walk(x, out)),
            _ => {}
        }
    }
    let mut out = vec![];
    walk(&ast, &mut out);
    Ok(out)
}

/// group kinds in the AST: (capturing count, non-capturing count)
fn group_kinds(p: &str) -> Result<(usize, usize), String> {
    use regex_syntax::ast::{self, Ast};
    let ast = ast::parse::Parser::new().parse(p).map_err(|e| e.to_string())?;
    fn walk(a: &Ast, c: &mut (usize, usize)) {
        match a {
            Ast::Group(g) => {
                match g.kind {
                    ast::GroupKind::CaptureIndex(_) | ast::GroupKind::CaptureName { .. } => c.0 += 1,
                    ast::GroupKind::NonCapturing(_) => c.1 += 1,
                }
                walk(&g.ast, c)
            }
            Ast::Repetition(r) => walk(&r.ast, c),
            Ast::Alternation(al) => al.asts.iter().for_each(|x| walk(x, c)),
            Ast::Concat(cc) => cc.asts.iter().for_each(|x| walk(x, c)),
            _ => {}
        }
    }
    let mut c = (0, 0);
    walk(&ast, &mut c);
    Ok(c)
}

// ------------------------------------------------------------------------------------------
// Per-case evaluation
// ------------------------------------------------------------------------------------------

fn oracle_entry(s: &str) -> Value {
    let seg: Vec<Value> = UnicodeSegmentation::graphemes(s, true)
        .map(|g| json!(g.chars().count()))
        .collect();
    let cat: Vec<Value> = s
        .chars()
        .map(|c| {
            let k = GeneralCategory::of(c);
            json!(k.is_mark() || k.is_other())
        })
        .collect();
    json!({"s": cps(s), "lower": cps(&s.to_lowercase()), "seg": seg, "cat": cat})
}

fn run_case(case: &Value, eng: &Engine) -> Value {
    let id = case["id"].clone();
    let tcs: Vec<String> = case["tcs"].as_array().unwrap().iter().map(str_of).collect();
    let f = parse_flags(case);
    let want_lang = case["lang"].as_bool().unwrap_or(false);
    let (res, trace) = traced_build(&tcs, &f);

    // oracle data for the model: every input string and its lower-cased form
    let mut strings: BTreeSet<String> = BTreeSet::new();
    for t in &tcs {
        strings.insert(t.clone());
        strings.insert(t.to_lowercase());
    }
    let oracle: Vec<Value> = strings.iter().map(|s| oracle_entry(s)).collect();
    // lower-casing idempotence (assumption `lower_idem` of the model)
    let lower_idem = tcs.iter().all(|t| {
        let l = t.to_lowercase();
        l.to_lowercase() == l
    });

    let mut v = BTreeMap::<String, Value>::new();
    let out = match &res {
        Ok(o) => o.clone(),
        Err(m) => {
            return json!({"id": id, "panic": m, "trace": trace_json(&trace), "oracle": oracle,
                          "lower_idem": lower_idem, "verdicts": {}});
        }
    };
    let presentable = !f.sur && !f.colour;
    let stripped = if f.colour { strip_sgr(&out) } else { out.clone() };
    // the pattern the regex crate can be asked about
    let judged: Option<String> = if f.sur { Some(decode_surrogates(&stripped)) } else { Some(stripped.clone()) };

    // classification of the known-finding classes (DESIGN §3.7)
    let k4 = tcs.iter().any(|t| t.is_empty()) && tcs.iter().any(|t| !t.is_empty());
    let merged = trace
        .iter()
        .find(|(s, _)| *s == "trie")
        .map(|(_, t)| has_range_edge(t))
        .unwrap_or(false);
    v.insert("k4".into(), json!(k4));
    v.insert("k1_merge".into(), json!(merged));

    // C07 compile
    let compiles = regex::RegexBuilder::new(&stripped).build().map_err(|e| e.to_string());
    if presentable {
        v.insert("compile".into(), match &compiles { Ok(_) => json!(true), Err(e) => json!(e) });
    }
    // ASCII (C11)
    if f.esc {
        v.insert("ascii".into(), json!(stripped.is_ascii()));
    }
    // C15: colour only adds SGR
    if f.colour {
        let mut g = f.clone();
        g.colour = false;
        match plain_build(&tcs, &g) {
            Ok(p) => {
                v.insert("colour_strip_eq".into(), json!(p == stripped));
                if p != stripped {
                    v.insert("colour_plain".into(), cps(&p));
                }
            }
            Err(m) => {
                v.insert("colour_strip_eq".into(), json!(format!("plain build panicked: {m}")));
            }
        }
    }
    if let Some(j) = &judged {
        // C01 soundness: every original test case matched in full (PikeVM judge)
        let mut unmatched = vec![];
        let mut judge_err = None;
        for t in &tcs {
            match pikevm_full(j, t) {
                Ok(true) => {}
                Ok(false) => unmatched.push(cps(t)),
                Err(e) => {
                    judge_err = Some(e);
                    break;
                }
            }
        }
        v.insert("unmatched".into(), Value::Array(unmatched));
        if let Some(e) = judge_err {
            v.insert("judge_error".into(), json!(e));
        } else {
            // C08 search: leftmost-first find spans the whole test case
            if f.no_start || f.no_end {
                let mut bad = vec![];
                let mut incons = vec![];
                for t in &tcs {
                    if let Ok(sp) = pikevm_find(j, t) {
                        if sp != Some((0, t.len())) {
                            // class of known finding K2: a proper prefix of t is itself in the language
                            let k2 = t
                                .char_indices()
                                .map(|(i, _)| &t[..i])
                                .any(|p| pikevm_full(j, p).unwrap_or(false));
                            bad.push(json!({"t": cps(t), "span": format!("{sp:?}"), "k2": k2}));
                        }
                        if let Ok(re) = &compiles {
                            if !f.sur {
                                let m = re.find(t).map(|m| (m.start(), m.end()));
                                if m != sp {
                                    incons.push(json!({"t": cps(t), "pikevm": format!("{sp:?}"), "meta": format!("{m:?}")}));
                                }
                            }
                        }
                    }
                }
                v.insert("find_bad".into(), Value::Array(bad));
                if !incons.is_empty() {
                    v.insert("engine_inconsistencies".into(), Value::Array(incons));
                }
            }
            // C13 thresholds
            match counted_reps(j) {
                Ok(reps) => {
                    v.insert(
                        "counted".into(),
                        Value::Array(reps.iter().map(|(m, n, l)| json!([m, n, l])).collect()),
                    );
                }
                Err(e) => {
                    v.insert("ast_error".into(), json!(e));
                }
            }
            if let Ok((c, n)) = group_kinds(j) {
                v.insert("groups".into(), json!([c, n]));
            }
            // language equality with the independent specification (C02–C06, C11)
            if want_lang {
                let spec = eng.spec(&f, &tcs);
                match lang_diff(j, &spec) {
                    Ok(None) => {
                        v.insert("lang".into(), json!("eq"));
                    }
                    Ok(Some((w, out_accepts))) => {
                        v.insert(
                            "lang".into(),
                            json!({"witness": String::from_utf8_lossy(&w).chars().map(|c| c as u32).collect::<Vec<_>>(),
                                   "witness_bytes": w, "out_accepts": out_accepts}),
                        );
                    }
                    Err(e) => {
                        v.insert("lang".into(), json!({"undecided": e}));
                    }
                }
            }
        }
    }
    json!({"id": id, "out": cps(&out), "trace": trace_json(&trace), "oracle": oracle,
           "lower_idem": lower_idem, "verdicts": v})
}

fn has_range_edge(trie: &str) -> bool {
    // an edge label G(chars|reps|min|max) with min != max (only top-level of each edge matters,
    // nested reps always have min = max)
    let mut rest = trie;
    while let Some(p) = rest.find('|') {
        // look for "|<min>|<max>)" patterns
        let tail = &rest[p + 1..];
        let mut it = tail.splitn(2, ')');
        let head = it.next().unwrap_or("");
        let parts: Vec<&str> = head.split('|').collect();
        if parts.len() >= 2 {
            let a = parts[parts.len() - 2].parse::<u32>();
            let b = parts[parts.len() - 1].parse::<u32>();
            if let (Ok(a), Ok(b)) = (a, b) {
                if a != b {
                    return true;
                }
            }
        }
        rest = tail;
    }
    false
}

fn trace_json(t: &[(&'static str, String)]) -> Value {
    Value::Array(t.iter().map(|(s, x)| json!([s, x])).collect())
}

// ------------------------------------------------------------------------------------------
// dump: tables measured from the compiled code and the linked crates
// ------------------------------------------------------------------------------------------

fn ranges_of(pred: impl Fn(char) -> bool) -> Vec<(u32, u32)> {
    let mut out: Vec<(u32, u32)> = vec![];
    for cp in 0..=0x10ffffu32 {
        if let Some(c) = char::from_u32(cp) {
            if pred(c) {
                match out.last_mut() {
                    Some(l) if l.1 + 1 == cp => l.1 = cp,
                    _ => out.push((cp, cp)),
                }
            }
        }
    }
    out
}

fn dump() -> Value {
    let eng = Engine::new();
    let r = |v: &Vec<(u32, u32)>| Value::Array(v.iter().map(|(a, b)| json!([a, b])).collect());
    // single-code-point lower-casing: (c, lower) for every c whose to_lowercase is one other cp;
    // multi: c whose to_lowercase has several code points
    let mut lower_single = vec![];
    let mut lower_multi = vec![];
    for cp in 0..=0x10ffffu32 {
        if let Some(c) = char::from_u32(cp) {
            let l: Vec<char> = c.to_lowercase().collect();
            if l.len() == 1 {
                if l[0] != c {
                    lower_single.push(json!([cp, l[0] as u32]));
                }
            } else {
                lower_multi.push(json!(cp));
            }
        }
    }
    // simple case folding classes of the regex crate: for every scalar c, the class of (?i:c)
    // is recorded only when it has more than one member: (c, [members])
    let mut fold = vec![];
    {
        use regex_syntax::hir::{ClassUnicode, ClassUnicodeRange};
        for cp in 0..=0x10ffffu32 {
            if let Some(c) = char::from_u32(cp) {
                let mut cls = ClassUnicode::new([ClassUnicodeRange::new(c, c)]);
                cls.case_fold_simple();
                let members: Vec<u32> = cls
                    .iter()
                    .flat_map(|r| (r.start() as u32)..=(r.end() as u32))
                    .collect();
                if members.len() > 1 {
                    fold.push(json!([cp, members]));
                }
            }
        }
    }
    json!({
        "engine_d": r(&eng.d), "engine_w": r(&eng.w), "engine_s": r(&eng.s),
        "engine_D": r(&class_ranges(r"\D")), "engine_W": r(&class_ranges(r"\W")), "engine_S": r(&class_ranges(r"\S")),
        "grex_d": r(&ranges_of(|c| grex::verif::classify(c).0)),
        "grex_w": r(&ranges_of(|c| grex::verif::classify(c).1)),
        "grex_s": r(&ranges_of(|c| grex::verif::classify(c).2)),
        "is_whitespace": r(&ranges_of(|c| c.is_whitespace())),
        "mark_or_other": r(&ranges_of(|c| { let k = GeneralCategory::of(c); k.is_mark() || k.is_other() })),
        "lower_single": lower_single, "lower_multi": lower_multi, "fold": fold,
    })
}

// ------------------------------------------------------------------------------------------
// main
// ------------------------------------------------------------------------------------------

fn main() {
    std::panic::set_hook(Box::new(|_| {}));
    let args: Vec<String> = std::env::args().collect();
    let cmd = args.get(1).map(|s| s.as_str()).unwrap_or("run");
    let stdin = std::io::stdin();
    let stdout = std::io::stdout();
    let mut w = std::io::BufWriter::new(stdout.lock());
    match cmd {
        "dump" => {
            writeln!(w, "{}", dump()).unwrap();
        }
        "run" => {
            let eng = Engine::new();
            let lines: Vec<String> = stdin.lock().lines().map(|l| l.unwrap()).collect();
            let nthreads: usize = std::env::var("GREXV_THREADS").ok().and_then(|s| s.parse().ok()).unwrap_or(16);
            let results: Vec<std::sync::Mutex<Option<String>>> =
                lines.iter().map(|_| std::sync::Mutex::new(None)).collect();
            let next = std::sync::atomic::AtomicUsize::new(0);
            std::thread::scope(|sc| {
                for _ in 0..nthreads {
                    sc.spawn(|| loop {
                        let i = next.fetch_add(1, std::sync::atomic::Ordering::SeqCst);
                        if i >= lines.len() {
                            break;
                        }
                        if lines[i].trim().is_empty() {
                            continue;
                        }
                        let case: Value = serde_json::from_str(&lines[i]).expect("case json");
                        let r = catch_unwind(AssertUnwindSafe(|| run_case(&case, &eng)))
                            .unwrap_or_else(|e| json!({"id": case["id"], "harness_panic": panic_msg(e)}));
                        *results[i].lock().unwrap() = Some(r.to_string());
                    });
                }
            });
            for r in results {
                if let Some(s) = r.into_inner().unwrap() {
                    writeln!(w, "{s}").unwrap();
                }
            }
        }
        "lines" => {
            // str::lines on each input (code point arrays), for validating the Coq model of lines
            for l in stdin.lock().lines() {
                let v: Value = serde_json::from_str(&l.unwrap()).unwrap();
                let s = str_of(&v);
                let ls: Vec<Value> = s.lines().map(cps).collect();
                writeln!(w, "{}", Value::Array(ls)).unwrap();
            }
        }
        other => {
            eprintln!("unknown subcommand {other}");
            std::process::exit(2);
        }
    }
}
