(* runs the extracted model of the Python escape rewrite (Model/PyRewrite.v) on patterns read from stdin *)
open Pymodel
let rec pos_of_int n = if n = 1 then XH else if n land 1 = 0 then XO (pos_of_int (n lsr 1)) else XI (pos_of_int (n lsr 1))
let n_of_int n = if n = 0 then N0 else Npos (pos_of_int n)
let rec int_of_pos = function XH -> 1 | XO p -> 2 * int_of_pos p | XI p -> 2 * int_of_pos p + 1
let int_of_n = function N0 -> 0 | Npos p -> int_of_pos p
let () =
  (try while true do
       let l = String.trim (input_line stdin) in
       let s = if l = "" then [] else List.map (fun x -> n_of_int (int_of_string x)) (String.split_on_char ',' l) in
       print_endline (String.concat "," (List.map (fun c -> string_of_int (int_of_n c)) (py_rewrite s)))
     done with End_of_file -> ());
  flush stdout
