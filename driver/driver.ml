(* Correspondence driver: runs the extracted Coq model on cases written by the check script and
   prints stage snapshots in exactly the textual format of the cfg(grex_verif) hooks. *)
open Model

let rec pos_of_int n =
  if n = 1 then XH else if n land 1 = 0 then XO (pos_of_int (n lsr 1)) else XI (pos_of_int (n lsr 1))
let n_of_int n = if n = 0 then N0 else Npos (pos_of_int n)
let rec int_of_pos = function XH -> 1 | XO p -> 2 * int_of_pos p | XI p -> 2 * int_of_pos p + 1
let int_of_n = function N0 -> 0 | Npos p -> int_of_pos p
let nat_of_int n = let rec go k acc = if k = 0 then acc else go (k - 1) (S acc) in go n O
let int_of_nat n = let rec go n acc = match n with O -> acc | S m -> go m (acc + 1) in go n 0

let split c s = if s = "" then [] else String.split_on_char c s
let str_of_field s = List.map (fun x -> n_of_int (int_of_string x)) (split ',' s)

(* ---------- serialisers (same format as src/verif.rs) ---------- *)
let ser_str (s : str) = "[" ^ String.concat "," (List.map (fun c -> string_of_int (int_of_n c)) s) ^ "]"
let ser_strs l = String.concat ";" (List.map ser_str l)
let rec ser_g (G (cs, rs, a, b)) =
  Printf.sprintf "G(%s|%s|%d|%d)" (ser_strs cs) (String.concat "" (List.map ser_g rs)) (int_of_n a) (int_of_n b)
let ser_gs gs = "{" ^ String.concat "" (List.map ser_g gs) ^ "}"
let ser_clusters cls = String.concat " " (List.map ser_gs cls)
let rec ser_expr = function
  | EAlt os -> "Alt(" ^ String.concat "," (List.map ser_expr os) ^ ")"
  | ECC cs -> "CC(" ^ String.concat "," (List.map (fun c -> string_of_int (int_of_n c)) cs) ^ ")"
  | ECat (a, b) -> "Cat(" ^ ser_expr a ^ "," ^ ser_expr b ^ ")"
  | ELit cl -> "Lit" ^ ser_gs cl
  | ERep (e, q) -> "Rep(" ^ ser_expr e ^ "," ^ (match q with QStar -> "*" | QQuestion -> "?") ^ ")"
let ser_dfa (d : dfa) =
  Printf.sprintf "n=%d init=%d finals=%s alphabet=%s edges=%s" (int_of_nat d.d_n) (int_of_nat d.d_init)
    (String.concat "," (List.map (fun s -> string_of_int (int_of_nat s)) d.d_finals))
    (String.concat "" (List.map ser_g d.d_alphabet))
    (String.concat " " (List.map (fun ((a, b), g) -> Printf.sprintf "%d>%d:%s" (int_of_nat a) (int_of_nat b) (ser_g g)) d.d_edges))

(* ---------- parsers for the same format (stage-local correspondence) ---------- *)
exception Parse of string
let parse_err s i msg = raise (Parse (Printf.sprintf "%s at %d in %s" msg i (if String.length s > 80 then String.sub s 0 80 else s)))
let expect s i c = if !i < String.length s && s.[!i] = c then incr i else parse_err s !i (Printf.sprintf "expected %c" c)
let peek s i = if !i < String.length s then Some s.[!i] else None
let p_int s i =
  let j = !i in
  while !i < String.length s && s.[!i] >= '0' && s.[!i] <= '9' do incr i done;
  if !i = j then parse_err s j "expected int";
  int_of_string (String.sub s j (!i - j))
let p_str s i : str =
  expect s i '[';
  let acc = ref [] in
  if peek s i = Some ']' then (incr i; [])
  else begin
    acc := [n_of_int (p_int s i)];
    while peek s i = Some ',' do incr i; acc := n_of_int (p_int s i) :: !acc done;
    expect s i ']'; List.rev !acc
  end
let p_strs s i : str list =
  if peek s i <> Some '[' then []
  else begin
    let acc = ref [p_str s i] in
    while peek s i = Some ';' do incr i; acc := p_str s i :: !acc done;
    List.rev !acc
  end
let rec p_g s i : grapheme =
  expect s i 'G'; expect s i '(';
  let cs = p_strs s i in
  expect s i '|';
  let rs = ref [] in
  while peek s i = Some 'G' do rs := p_g s i :: !rs done;
  expect s i '|';
  let a = p_int s i in expect s i '|';
  let b = p_int s i in expect s i ')';
  G (cs, List.rev !rs, n_of_int a, n_of_int b)
let p_gs s i : grapheme list =
  expect s i '{';
  let acc = ref [] in
  while peek s i = Some 'G' do acc := p_g s i :: !acc done;
  expect s i '}'; List.rev !acc
let p_clusters s : grapheme list list =
  let i = ref 0 in
  let acc = ref [] in
  while !i < String.length s do
    acc := p_gs s i :: !acc;
    if peek s i = Some ' ' then incr i
  done;
  List.rev !acc
let rec p_expr s i : expr =
  match peek s i with
  | Some 'A' -> i := !i + 4;
      let acc = ref [p_expr s i] in
      while peek s i = Some ',' do incr i; acc := p_expr s i :: !acc done;
      expect s i ')'; EAlt (List.rev !acc)
  | Some 'C' when !i + 1 < String.length s && s.[!i + 1] = 'C' -> i := !i + 3;
      let acc = ref [] in
      if peek s i <> Some ')' then begin
        acc := [n_of_int (p_int s i)];
        while peek s i = Some ',' do incr i; acc := n_of_int (p_int s i) :: !acc done
      end;
      expect s i ')'; ECC (List.rev !acc)
  | Some 'C' -> i := !i + 4;
      let a = p_expr s i in expect s i ',';
      let b = p_expr s i in expect s i ')'; ECat (a, b)
  | Some 'L' -> i := !i + 3; ELit (p_gs s i)
  | Some 'R' -> i := !i + 4;
      let e = p_expr s i in expect s i ',';
      let q = (match peek s i with Some '*' -> QStar | Some '?' -> QQuestion | _ -> parse_err s !i "quant") in
      incr i; expect s i ')'; ERep (e, q)
  | _ -> parse_err s !i "expr"
let p_dfa s : dfa =
  (* n=.. init=.. finals=a,b alphabet=G..G.. edges=a>b:G ... *)
  let i = ref 0 in
  let kw k = String.iter (fun c -> expect s i c) k in
  kw "n="; let n = p_int s i in
  kw " init="; let init = p_int s i in
  kw " finals=";
  let fin = ref [] in
  (match peek s i with
   | Some c when c >= '0' && c <= '9' ->
       fin := [p_int s i];
       while peek s i = Some ',' do incr i; fin := p_int s i :: !fin done
   | _ -> ());
  kw " alphabet=";
  let al = ref [] in
  while peek s i = Some 'G' do al := p_g s i :: !al done;
  kw " edges=";
  let es = ref [] in
  while !i < String.length s do
    let a = p_int s i in expect s i '>';
    let b = p_int s i in expect s i ':';
    let g = p_g s i in
    es := ((nat_of_int a, nat_of_int b), g) :: !es;
    if peek s i = Some ' ' then incr i
  done;
  { d_n = nat_of_int n; d_edges = List.rev !es; d_init = nat_of_int init;
    d_finals = List.map nat_of_int (List.rev !fin); d_alphabet = List.rev !al }

(* ---------- case decoding ---------- *)
let cfg_of flags mr ms =
  let has f = List.mem f (split ',' flags) in
  { min_rep = n_of_int mr; min_len = n_of_int ms;
    f_digit = has "d"; f_non_digit = has "D"; f_space = has "s"; f_non_space = has "S";
    f_word = has "w"; f_non_word = has "W"; f_rep = has "r"; f_ci = has "i"; f_cap = has "g";
    f_esc = has "e" || has "E"; f_sur = has "E"; f_verbose = has "x";
    f_no_start = has "ns"; f_no_end = has "ne"; f_colour = has "c" }

let sc_of = function
  | "skipped" -> SCSkipped | "pass1" -> SCPass1 | "pass2" -> SCPass2 | "fail" -> SCFail
  | s -> failwith ("bad selfcheck " ^ s)

let odb_of field : odb =
  List.map (fun e ->
      match String.split_on_char '|' e with
      | [s; l; seg; cat] ->
          { o_s = str_of_field s; o_lower = str_of_field l;
            o_seg = List.map (fun x -> nat_of_int (int_of_string x)) (split ',' seg);
            o_cat = List.map (fun c -> c = '1') (List.init (String.length cat) (String.get cat)) }
      | _ -> failwith "bad oracle entry")
    (split ';' field)

let engine_d : (int * int) array ref = ref [||]
let is_digit_engine (c : cp) : bool =
  let c = int_of_n c in
  let a = !engine_d in
  let lo = ref 0 and hi = ref (Array.length a - 1) and found = ref false in
  while not !found && !lo <= !hi do
    let mid = (!lo + !hi) / 2 in
    let (x, y) = a.(mid) in
    if c < x then hi := mid - 1 else if c > y then lo := mid + 1 else found := true
  done;
  !found

let load_ranges path =
  let ic = open_in path in
  let acc = ref [] in
  (try while true do
       let l = input_line ic in
       match String.split_on_char ' ' (String.trim l) with
       | [a; b] -> acc := (int_of_string a, int_of_string b) :: !acc
       | _ -> ()
     done with End_of_file -> ());
  close_in ic;
  Array.of_list (List.rev !acc)

let out id stage text = Printf.printf "%s\t%s\t%s\n" id stage text
let opt f = function Some x -> f x | None -> "!ERR"

let ws_model : (int * int) array ref = ref [||]
let is_ws_model (c : cp) : bool =
  let c = int_of_n c in
  Array.exists (fun (x, y) -> x <= c && c <= y) !ws_model

(* a case line:  id \t flags \t mr \t ms \t sc \t tcs \t odb [\t stage=text]*   *)
let run_case line =
  match String.split_on_char '\t' line with
  | id :: flags :: mr :: ms :: sc :: tcs :: odbf :: impl ->
      let c = cfg_of flags (int_of_string mr) (int_of_string ms) in
      let sc = sc_of sc in
      let ws = List.map str_of_field (String.split_on_char ';' tcs) in
      let ws = if tcs = "-" then [] else ws in
      let db = odb_of odbf in
      (* end to end, stage by stage from the original input *)
      let norm = normalise c db ws in
      out id "norm" (ser_strs norm);
      let cg = clusters_g db norm in
      out id "clusters_g" (ser_clusters cg);
      let ck = clusters_k c cg in
      out id "clusters_k" (ser_clusters ck);
      let cr = clusters_r c ck in
      out id "clusters_r" (ser_clusters cr);
      out id "no_merge" (if no_merge cr then "1" else "0");
      let trie = trie_of cr in
      out id "trie" (opt ser_dfa trie);
      (* the language of the MODEL's trie as a pattern (unminimised expression, printed without colour and
         surrogates): the class of known finding K1 is "the over-matched string is already accepted by the trie" *)
      if not (no_merge cr) then begin
        let cp_ = { c with f_colour = false; f_sur = false; f_no_start = false; f_no_end = false } in
        out id "trie_pat" (match trie with
            | Some t -> opt (fun e -> ser_str (regexp_str is_digit_engine cp_ e)) (expr_from c t)
            | None -> "!ERR")
      end;
      let mn = (match trie with Some t -> minimize t | None -> None) in
      out id "min" (opt ser_dfa mn);
      let e1 = (match mn with Some d -> expr_from c d | None -> None) in
      out id "expr" (opt ser_expr e1);
      out id "sc_ok" (if (not (c.f_no_start && c.f_no_end)) || sc_admissible c sc then "1" else "0");
      (* F inside the model (Model/SelfCheck.v): the outcome computed from the reference semantics, and the two
         candidate strings handed to Regex::new, for the verdicts of the optimised engine *)
      if c.f_no_start && c.f_no_end then begin
        let name = function SCSkipped -> "skipped" | SCPass1 -> "pass1" | SCPass2 -> "pass2" | SCFail -> "fail" in
        out id "sc_ref" (match sc_ref is_digit_engine is_ws_model c cr norm with Some s -> name s | None -> "!ERR");
        out id "cand1" (match e1 with Some e -> ser_str (cand1_str is_digit_engine c e) | None -> "!ERR");
        out id "cand2" (match (match dfa_from cr false with Some d -> expr_from c d | None -> None) with
                        | Some e -> ser_str (cand_str is_digit_engine c e) | None -> "!ERR")
      end;
      let fe = final_expr c cr sc in
      out id "final" (opt ser_expr fe);
      out id "out" (opt (fun e -> ser_str (regexp_str is_digit_engine c e)) fe);
      (* stage-local: the model's stage function applied to the implementation's own input *)
      let impl = List.filter_map (fun kv ->
          match String.index_opt kv '=' with
          | Some p -> Some (String.sub kv 0 p, String.sub kv (p + 1) (String.length kv - p - 1))
          | None -> None) impl in
      let get k = List.assoc_opt k impl in
      let local stage f = (try out id ("L:" ^ stage) (f ()) with Parse m -> out id ("L:" ^ stage) ("!PARSE " ^ m) | Not_found -> ()) in
      let need k = match get k with Some v -> v | None -> raise Not_found in
      local "clusters_g" (fun () -> let i = ref 0 in ser_clusters (clusters_g db (p_strs (need "norm") i)));
      local "clusters_k" (fun () -> ser_clusters (clusters_k c (p_clusters (need "clusters_g"))));
      local "clusters_r" (fun () -> ser_clusters (clusters_r c (p_clusters (need "clusters_k"))));
      local "trie" (fun () -> opt ser_dfa (trie_of (p_clusters (need "clusters_r"))));
      local "min" (fun () -> opt ser_dfa (minimize (p_dfa (need "trie"))));
      local "expr" (fun () -> opt ser_expr (expr_from c (p_dfa (need "min"))));
      local "out" (fun () -> let i = ref 0 in ser_str (regexp_str is_digit_engine c (p_expr (need "final") i)));
      ()
  | _ -> prerr_endline ("bad case line: " ^ line)

let lines_mode () =
  (try while true do
       let l = input_line stdin in
       let s = str_of_field (String.trim l) in
       let ls = lines s in
       if ls = [] then print_endline "-"
       else print_endline (String.concat ";" (List.map (fun w -> String.concat "," (List.map (fun c -> string_of_int (int_of_n c)) w)) ls))
     done with End_of_file -> ());
  flush stdout

(* canonical S-expression of the Coq parser model's result (same format as grexv ast) *)
let ws_table : (int * int) array ref = ref [||]
let in_table a c =
  let lo = ref 0 and hi = ref (Array.length a - 1) and found = ref false in
  while not !found && !lo <= !hi do
    let mid = (!lo + !hi) / 2 in
    let (x, y) = a.(mid) in
    if c < x then hi := mid - 1 else if c > y then lo := mid + 1 else found := true
  done; !found
let is_ws c = in_table !ws_table (int_of_n c)
let rec flat_cat r = match r with RCat (a, b) -> flat_cat a @ [b] | _ -> [r]
let rec flat_alt r = match r with RAlt (a, b) -> flat_alt a @ [b] | _ -> [r]
let rec sexpr r =
  match r with
  | REmpty -> "(empty)"
  | RLit c -> Printf.sprintf "(lit %d)" (int_of_n c)
  | RPerl l -> Printf.sprintf "(perl %c)" (Char.chr (int_of_n l))
  | RBracket items -> "(br " ^ String.concat " " (List.map (fun (a, b) -> Printf.sprintf "%d-%d" (int_of_n a) (int_of_n b)) items) ^ ")"
  | RStart -> "^" | REnd -> "$"
  | RGroup (cap, x) -> Printf.sprintf "(grp %s %s)" (if cap then "cap" else "non") (sexpr x)
  | RRep (x, lo, hi) -> Printf.sprintf "(rep %d %s %s)" (int_of_n lo) (match hi with Some k -> string_of_int (int_of_n k) | None -> "inf") (sexpr x)
  | RCat _ -> "(cat " ^ String.concat " " (List.map sexpr (flat_cat r)) ^ ")"
  | RAlt _ -> "(alt " ^ String.concat " " (List.map sexpr (flat_alt r)) ^ ")"
let ast_mode () =
  (try while true do
       let l = input_line stdin in
       let s = str_of_field (String.trim l) in
       (match parse is_ws s with
        | Some (fl, r) -> Printf.printf "flags=%s%s %s\n" (if fl.fl_i then "i" else "") (if fl.fl_x then "x" else "") (sexpr r)
        | None -> print_endline "NONE")
     done with End_of_file -> ());
  flush stdout

(* --match: parse with the Coq parser model, then evaluate the extracted executable matcher
   (Engine/Exec.v, proved equivalent to the matching relation) on each haystack.
   line: pattern cps TAB haystack cps ; haystack cps ; ...   *)
let eng_tabs : (char * (int * int) array) list ref = ref []
let cls_b (l : cp) (x : cp) : bool =
  match List.assoc_opt (Char.chr (int_of_n l)) !eng_tabs with
  | Some a -> in_table a (int_of_n x)
  | None -> false
let match_mode dir =
  eng_tabs := List.map (fun c -> (c, load_ranges (Filename.concat dir (Printf.sprintf "engine_%s%c.txt" (if Char.uppercase_ascii c = c then "neg_" else "") (Char.lowercase_ascii c))))) ['d'; 'w'; 's'; 'D'; 'W'; 'S'];
  ws_table := load_ranges (Filename.concat dir "std_ws.txt");
  (try while true do
       let l = input_line stdin in
       (match String.split_on_char '\t' l with
        | [pf; hf] ->
            let p = str_of_field pf in
            let hs = List.map str_of_field (String.split_on_char ';' hf) in
            (match parse is_ws p with
             | None -> print_endline "NONE"
             | Some (fl, r) ->
                 (* the verified matcher at the engine denotations (ExecCi.v: fold table and class tables
                    are the generated Coq constants); case-insensitive when the pattern carries (?i) *)
                   print_endline (String.concat ";" (List.map (fun h ->
                     let full = matches_whole_engine fl.fl_i h r in
                     let fnd = (match find_leftmost_engine fl.fl_i h r with
                                | None -> "-"
                                | Some (i, js) -> Printf.sprintf "%d:%s" (int_of_nat i) (String.concat "," (List.map (fun j -> string_of_int (int_of_nat j)) js))) in
                     (* leftmost-FIRST (Engine/Prio.v): the span `Regex::find` reports; "?" where the priority
                        model is not exact (a repetition body that can match the empty string) *)
                     let fst_ = if not (rep_bodies_ok r) then "?" else
                                (match find_first_engine fl.fl_i h r with
                                 | None -> "-"
                                 | Some (i, j) -> Printf.sprintf "%d:%d" (int_of_nat i) (int_of_nat j)) in
                     let cnt = if not (rep_bodies_ok r) then "?" else string_of_int (int_of_nat (find_iter_count_engine fl.fl_i h r)) in
                     Printf.sprintf "%s/%s/%s/%s" (if full then "1" else "0") fnd fst_ cnt) hs)))
        | _ -> print_endline "BAD")
     done with End_of_file -> ());
  flush stdout

(* --scdecide: the control flow of the self-check (Model/SelfCheck.sc_decide) applied to verdicts measured elsewhere
   (the optimised engine's). line: ntc v1 v2, verdicts 1 / 0 / - (does not compile) *)
let scdecide_mode () =
  (try while true do
       let l = input_line stdin in
       (match String.split_on_char ' ' (String.trim l) with
        | [n; v1; v2] ->
            let v = function "1" -> Some true | "0" -> Some false | _ -> None in
            let name = function SCSkipped -> "skipped" | SCPass1 -> "pass1" | SCPass2 -> "pass2" | SCFail -> "fail" in
            print_endline (name (sc_decide (nat_of_int (int_of_string n)) (v v1) (fun () -> v v2)))
        | _ -> print_endline "BAD")
     done with End_of_file -> ());
  flush stdout

let () =
  if Array.length Sys.argv > 1 && Sys.argv.(1) = "--lines" then (lines_mode (); exit 0);
  if Array.length Sys.argv > 1 && Sys.argv.(1) = "--scdecide" then (scdecide_mode (); exit 0);
  if Array.length Sys.argv > 2 && Sys.argv.(1) = "--match" then (match_mode Sys.argv.(2); exit 0);
  if Array.length Sys.argv > 2 && Sys.argv.(1) = "--ast" then (ws_table := load_ranges Sys.argv.(2); ast_mode (); exit 0);
  engine_d := load_ranges Sys.argv.(1);
  (let wsf = Filename.concat (Filename.dirname Sys.argv.(1)) "std_ws.txt" in
   if Sys.file_exists wsf then ws_model := load_ranges wsf);
  (try while true do
       let l = input_line stdin in
       if String.trim l <> "" then
         (try run_case l with
          | Stack_overflow -> Printf.printf "%s\t!CRASH\tstack overflow\n" (List.hd (String.split_on_char '\t' l))
          | Failure m -> Printf.printf "%s\t!CRASH\t%s\n" (List.hd (String.split_on_char '\t' l)) m)
     done with End_of_file -> ());
  flush stdout
