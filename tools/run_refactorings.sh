#!/bin/bash
# applies each behaviour-preserving refactoring to /repo, runs one quick check, restores /repo
cd /verif
OUT=seeded/RESULTS_refactorings.md
echo "| refactoring | check | result |" > $OUT.tmp; echo "|---|---|---|" >> $OUT.tmp
for pair in "H1 C16" "H2 C02" "H3 C05" "H4 C11" "H5 C06" "H6 C15"; do
  set -- $pair; H=$1; P=$2
  (cd /repo && git status --short | grep -q . && { echo "/repo not clean"; exit 2; })
  (cd /repo && git apply /verif/seeded/refactorings/$H/patch.diff) || { echo "| $H | - | patch does not apply |" >> $OUT.tmp; continue; }
  log=$(./check $P --tier quick 2>&1 | grep -v "^WARNING\|^KNOWN-FINDING")
  if echo "$log" | grep -q "^VIOLATION.*no-failing-input-found"; then r="alarm without failing input (tie broken): $(echo "$log" | grep -m1 'broken:' | cut -c11-140)";
  elif echo "$log" | grep -q "^VIOLATION"; then r="**FALSE ALARM with a failing input**";
  else r="quiet (check passes)"; fi
  echo "| $H | $P | $r |" >> $OUT.tmp; echo "$H $P: $r"
  (cd /repo && git checkout -- .)
done
git -C /verif checkout -- evidence 2>/dev/null
mv $OUT.tmp $OUT
