#!/bin/bash
# usage: confirm_seed.sh <PID> <a|b>   — confirms a seeded change in its scratch worktree:
# patch applies, demo passes without / fails with the change, the 679-test suite passes with it.
set -u
PID=$1; V=$2
PFX=${SEED_PREFIX:-seed}; WT=/tmp/${PFX}_$PID; OUT=/tmp/${PFX}_${PID}_out/$V
export CARGO_NET_OFFLINE=true
cd $WT || exit 2
git checkout -q -- . ; git clean -fdq tests src
DEMO=$(ls $OUT/demo.* | head -1)
echo "demo: $DEMO"
case "$DEMO" in
  *.rs) cp $DEMO tests/seed_demo.rs; RUN="cargo test --offline --test seed_demo -q";;
  *.sh) RUN="bash $DEMO";;
  *.py) RUN="python3 $DEMO";;
esac
echo "== demo WITHOUT the change"; $RUN > /tmp/${PFX}_${PID}_$V.base.log 2>&1; echo "exit $?"
git apply $OUT/patch.diff || { echo "PATCH DOES NOT APPLY"; exit 3; }
echo "== demo WITH the change"; $RUN > /tmp/${PFX}_${PID}_$V.mut.log 2>&1; echo "exit $?"
rm -f tests/seed_demo.rs
rm -f tests/property_tests.proptest-regressions
echo "== suite WITH the change (the two case-insensitive proptests of the repository are flaky on the unchanged code: known finding K3)"
for try in 1 2 3; do cargo nextest run --workspace --no-fail-fast --test-threads 8 --offline > /tmp/${PFX}_${PID}_$V.suite.log 2>&1; grep -E "Summary" /tmp/${PFX}_${PID}_$V.suite.log; grep -E "^\s+FAIL" /tmp/${PFX}_${PID}_$V.suite.log | sort -u | head -3; rm -f tests/property_tests.proptest-regressions; grep -q "679 passed" /tmp/${PFX}_${PID}_$V.suite.log && break; done
git checkout -q -- . ; git clean -fdq tests src
