#!/bin/bash
# usage: confirm_seed.sh <PID> <a|b>   — confirms a seeded change in its scratch worktree:
# patch applies, demo passes without / fails with the change, the 679-test suite passes with it.
set -u
PID=$1; V=$2
WT=/tmp/seed_$PID; OUT=/tmp/seed_${PID}_out/$V
export CARGO_NET_OFFLINE=true
cd $WT || exit 2
git checkout -q -- . ; git clean -fdq tests src
DEMO=$(ls $OUT/demo.* | head -1)
echo "demo: $DEMO"
case "$DEMO" in
  *.rs) cp $DEMO tests/seed_demo.rs; RUN="cargo test --offline --test seed_demo -q";;
  *.sh) RUN="bash $DEMO";;
  *.py) RUN="python3 $DEMO";;
esac
echo "== demo WITHOUT the change"; $RUN > /tmp/seed_${PID}_$V.base.log 2>&1; echo "exit $?"
git apply $OUT/patch.diff || { echo "PATCH DOES NOT APPLY"; exit 3; }
echo "== demo WITH the change"; $RUN > /tmp/seed_${PID}_$V.mut.log 2>&1; echo "exit $?"
rm -f tests/seed_demo.rs
echo "== suite WITH the change"; cargo nextest run --workspace --no-fail-fast --test-threads 8 --offline 2>&1 | grep -E "Summary|FAIL" | head -5
git checkout -q -- . ; git clean -fdq tests src
