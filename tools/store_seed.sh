#!/bin/bash
# usage: store_seed.sh <PFX> <PID> <a|b> <name>  — copies a confirmed seeded change into /verif/seeded/<name>
set -eu
PFX=$1; PID=$2; V=$3; NAME=$4
SRC=/tmp/${PFX}_${PID}_out/$V
mkdir -p /verif/seeded/$NAME
cp $SRC/patch.diff /verif/seeded/$NAME/
cp $SRC/demo.* /verif/seeded/$NAME/
python3 - "$SRC/meta.json" "/verif/seeded/$NAME/meta.json" "$PFX" "$PID" "$V" <<'P'
import json,sys
src,dst,pfx,pid,v=sys.argv[1:]
m=json.load(open(src))
m["confirmed_by_us"]=("tools/confirm_seed.sh %s %s (SEED_PREFIX=%s) in the scratch worktree /tmp/%s_%s: demo passes without / fails with the change; "
  "cargo nextest 679/679 with the change (the two case-insensitive proptests of the repository are flaky on the unchanged tree: K3)")%(pid,v,pfx,pfx,pid)
json.dump(m,open(dst,"w"),indent=1,ensure_ascii=False)
P
echo stored $NAME
