#!/bin/bash
# usage: try_refactoring.sh <name> <PID> [<PID>...] — applies /verif/seeded/refactorings/<name>/patch.diff (a behaviour-preserving
# change) to /repo, runs the quick checks — every VIOLATION line is a FALSE alarm — and restores /repo.
set -u
NAME=$1; shift
cd /repo && git status --short | grep -q . && { echo "/repo not clean"; exit 2; }
git apply /verif/seeded/refactorings/$NAME/patch.diff || { echo "patch does not apply"; exit 3; }
for P in "$@"; do
  (cd /verif && ./check $P --tier quick 2>&1 | grep -v "^WARNING\|^KNOWN-FINDING" | cut -c1-300)
  echo "  [$NAME vs $P] done"
done
cd /repo && git checkout -- . && git status --short | head -3
git -C /verif checkout -- evidence 2>/dev/null
