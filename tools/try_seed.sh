#!/bin/bash
# usage: try_seed.sh <seed-dir-name> <PID> [<PID>...] — applies /verif/seeded/<name>/patch.diff to /repo,
# runs the quick checks, and restores /repo.
set -u
NAME=$1; shift
cd /repo && git status --short | grep -q . && { echo "/repo not clean"; exit 2; }
git apply /verif/seeded/$NAME/patch.diff || { echo "patch does not apply"; exit 3; }
for P in "$@"; do
  (cd /verif && ./check $P --tier quick 2>&1 | grep -v "^WARNING\|^KNOWN-FINDING" | cut -c1-300)
  echo "  [$NAME vs $P] done"
done
cd /repo && git checkout -- . && git status --short | head -3
# evidence written while a seed was applied is not evidence about the tree: restore the committed files
git -C /verif checkout -- evidence 2>/dev/null
