#!/bin/bash
# Runs every seeded change against the quick check of its own property (and the extra
# properties listed in seeded/MATRIX.conf) and writes seeded/RESULTS.md.
cd /verif
PAT=${1:-C*}; OUT=${2:-seeded/RESULTS.md}
echo "| seed | check | result |" > $OUT.tmp; echo "|---|---|---|" >> $OUT.tmp
for d in ${SEEDS:-seeded/$PAT}; do
  name=$(basename $d); pid=${name:0:3}
  extra=$(grep "^$name " seeded/MATRIX.conf 2>/dev/null | cut -d' ' -f2-)
  (cd /repo && git status --short | grep -q . && { echo "/repo not clean"; exit 2; })
  (cd /repo && git apply /verif/$d/patch.diff) || { echo "| $name | - | patch does not apply |" >> $OUT.tmp; continue; }
  for P in $pid $extra; do
    log=$(./check $P --tier quick 2>&1 | grep -v "^WARNING\|^KNOWN-FINDING")
    if echo "$log" | grep -q "^VIOLATION.*no-failing-input-found"; then r="caught (proof/tie broken; no failing input found): $(echo "$log" | grep -m1 'broken:' | cut -c11-120)";
    elif echo "$log" | grep -q "^VIOLATION"; then r="caught with failing input ($(echo "$log" | grep -c '^VIOLATION') replays)";
    else r="**missed**"; fi
    echo "| $name | $P | $r |" >> $OUT.tmp
    echo "$name $P: $r"
  done
  (cd /repo && git checkout -- .)
done
git -C /verif checkout -- evidence 2>/dev/null   # evidence written under a seed is not evidence about the tree
mv $OUT.tmp $OUT
