"""Case generator (DESIGN §3.3 d). One PRNG (random.Random(seed)); every case is reproducible
from (seed, index). A case is {"id", "tcs": [[cp,...],...], "f": "d,w,...", "mr", "ms"}."""
import random, itertools

META = [ord(c) for c in "()[]{}+*-.?|^$\\#"]
WS = [0x20, 0x09, 0x0a, 0x0b, 0x0c, 0x0d, 0x85, 0xa0, 0x1680, 0x2000, 0x2003, 0x200a, 0x2028, 0x2029, 0x202f, 0x205f, 0x3000,
      0x180e, 0x200b, 0xfeff]
MARKS = [0x301, 0x308, 0xff9e, 0x200d, 0x0d4e, 0x0600, 0x0903, 0x20e3, 0xfe0f]
ASTRAL = [0x10000, 0x1f4a9, 0x1f1e9, 0x1f1ea, 0xfffff, 0x100000, 0x10ffff, 0x1d7ce]
BOUND = [0x7f, 0x80, 0xe9, 0x100, 0x7ff, 0x800, 0xfff, 0x1000, 0xd7ff, 0xe000, 0xffff]
CASED = [ord(c) for c in "aAbBzZiI"] + [0x130, 0x307, 0x131, 0x1e9e, 0xdf, 0x212b, 0x2126, 0x3a3, 0x3c3, 0x3c2, 0x212a, 0x13a0, 0xab70, 0x1c4, 0x1c5, 0x1c6]
DIGITS = [ord(c) for c in "0129"] + [0x660, 0x0967, 0xff11, 0xb2, 0x2460]
WORDY = [ord('_'), 0x5d0, 0x4e2d, 0x1100, 0x1161, 0x11a8]
SGR = [0x1b, ord('['), ord('m'), ord(';'), ord('0'), ord('1'), ord('3')]

ALPHABETS = [
    ("ab", [97, 98]), ("abc", [97, 98, 99]), ("a", [97]), ("ab.-", [97, 98, 46, 45]),
    ("meta", META), ("ws", WS + [97]), ("marks", [97, 98, 0x5c] + MARKS), ("astral", ASTRAL + [97]),
    ("bound", BOUND + [97]), ("cased", CASED), ("digits", DIGITS + [97, 45]), ("wordy", WORDY + [97, 32, 49]),
    ("sgr", SGR + [97]), ("mixed", [97, 98, 49, 50, 32, 46, 0x5c, 0xe9, 0x1f4a9, 0x301, 95]),
    ("a-h", list(range(97, 105))),
    # tokens may be tuples: multi-code-point clusters that grex keeps whole (no mark, no control character)
    ("clusters", [(0x1f1e9, 0x1f1ea), (0x1f1eb, 0x1f1f7), (0x1f44d, 0x1f3fd), 0x1f44d, (0x1100, 0x1161), (0x0e01, 0x0e33), (0x0d4e, 97), (0x111c2, 107), (0x0d4e, 55), 97, 120, 32, 33, 55]),
    ("caret", [0x5e, 0x5f, 0x60, 97, 98, 0x7e, 0x7c]), ("metaext", [ord(c) for c in "(+|.a"] + [0xff9e, 0x1f3fd, 0xd4e, 0x5c]), ("dollar", [0x24, 0x25, 0x26, 0x23, 0x5d, 0x5b, 0x2d]),
]

FLAGS = ['d', 'D', 's', 'S', 'w', 'W', 'r', 'i', 'g', 'e', 'E', 'x', 'c', 'ns', 'ne']

def gen_flags(rnd, allow=None, force=None):
    allow = allow if allow is not None else FLAGS
    mode = rnd.random()
    if mode < 0.2:
        fl = []
    elif mode < 0.75:
        fl = rnd.sample(allow, min(len(allow), rnd.randint(1, 3)))
    else:
        fl = [f for f in allow if rnd.random() < 0.4]
    if force:
        fl += [f for f in force if f not in fl]
    if 'E' in fl and 'e' in fl:
        fl.remove('e')
    return fl

def gen_strings(rnd, alpha):
    k = rnd.choice([1, 1, 2, 2, 3, 3, 4, 5, 6])
    shape = rnd.random()
    out = []
    def word(lo, hi):
        w = []
        for _ in range(rnd.randint(lo, hi)):
            t = rnd.choice(alpha)
            w.extend(t if isinstance(t, tuple) else [t])
        return w
    def tok():
        t = rnd.choice(alpha)
        return list(t) if isinstance(t, tuple) else [t]
    def runs(n):
        w = []; prev = None
        for _ in range(n):
            t = tok()
            if t == prev:
                continue
            prev = t
            w += t * rnd.choice([1, 1, 2, 2, 3, 3, 4])
        return w
    if shape < 0.07:          # run-length families: several prefixes x one symbol repeated 1..4 times (F13's region:
        pres = [runs(rnd.randint(1, 2)) for _ in range(rnd.randint(2, 3))]   # edges widened more than once)
        t = tok()
        for p in pres:
            for kk in rnd.sample([1, 2, 3, 4], rnd.randint(1, 3)):
                out.append(p + t * kk + (runs(1) if rnd.random() < 0.25 else []))
    elif shape < 0.10:        # one position varies over 3-5 CONSECUTIVE code points (a class printed as a range; the
        base = word(1, 3)     # run is placed so that alphabet members, e.g. ^ [ ] \ -, fall on its boundaries: seed C02d)
        pos = rnd.randint(0, len(base) - 1)
        c0 = rnd.choice([t for t in alpha if not isinstance(t, tuple)] or [97])
        n_ = rnd.randint(3, 5)
        lo = max(1, c0 - rnd.choice([0, 0, n_ - 1, 1]))
        for x in range(lo, lo + n_):
            if 0xd800 <= x <= 0xdfff or x > 0x10ffff:
                continue
            out.append(base[:pos] + [x] + base[pos + 1:])
        for _ in range(rnd.randint(0, 2)):
            out.append(word(1, 3))
    elif shape < 0.14:        # independent words made of runs
        for _ in range(rnd.randint(3, 7)):
            out.append(runs(rnd.randint(1, 4)))
    elif shape < 0.35:        # shared prefix/suffix families
        base = word(0, 3); suf = word(0, 2)
        for _ in range(k):
            s = (base if rnd.random() < 0.6 else []) + word(0 if rnd.random() < 0.08 else 1, 4) + (suf if rnd.random() < 0.4 else [])
            out.append(s)
    elif shape < 0.55:        # powers u^k with several k
        u = word(1, 3); p = word(0, 2)
        for _ in range(k):
            s = p + u * rnd.randint(1, 4) + (word(0, 2) if rnd.random() < 0.5 else [])
            out.append(s)
    elif shape < 0.7:         # prefix chains
        w = word(2, 6)
        for _ in range(k):
            out.append(w[:rnd.randint(0 if rnd.random() < 0.2 else 1, len(w))])
    elif shape < 0.8:         # nested periods
        x = word(1, 2); y = word(1, 1); z = word(0, 1)
        inner = x * 2 + y
        s = (inner * 2 + z) * rnd.randint(1, 2)
        out.append(s)
        for _ in range(k - 1):
            out.append(word(1, 5))
    elif shape < 0.86:        # case variants of one word (exercise lower-casing / dedup / folding)
        w = word(1, 4)
        txt = ''.join(map(chr, w))
        for v in (txt, txt.upper(), txt.lower(), txt.swapcase(), txt.title(), txt.casefold())[:max(2, k)]:
            out.append([ord(c) for c in v])
        rnd.shuffle(out)
    else:                     # independent
        for _ in range(k):
            out.append(word(0 if rnd.random() < 0.05 else 1, 6))
    if rnd.random() < 0.06:
        out.append([])
    return out

def small_exhaustive(sigma, maxlen, with_eps=True):
    """all non-empty subsets of sigma^{<=maxlen} (as lists of code point lists), lazily"""
    words = []
    for n in range(0 if with_eps else 1, maxlen + 1):
        for w in itertools.product(sigma, repeat=n):
            words.append(list(w))
    for mask in range(1, 1 << len(words)):
        yield [w for i, w in enumerate(words) if mask >> i & 1]

def generate(seed, n, allow_flags=None, force_flags=None, alphabets=None, thresholds=True):
    rnd = random.Random(seed)
    cases = []
    alphas = alphabets or ALPHABETS
    for i in range(n):
        name, alpha = alphas[rnd.randrange(len(alphas))] if rnd.random() < 0.75 else alphas[rnd.randrange(min(4, len(alphas)))]
        tcs = gen_strings(rnd, alpha)
        fl = gen_flags(rnd, allow_flags, force_flags)
        big = [255, 65535, 2 ** 31 - 1, 2 ** 31, 2 ** 32 - 2, 2 ** 32 - 1]
        mr = rnd.choice([1, 1, 1, 2, 2, 3, 4, 6]) if thresholds else 1
        ms = rnd.choice([1, 1, 1, 2, 2, 3, 4, 6]) if thresholds else 1
        if thresholds and rnd.random() < 0.04:
            mr = rnd.choice(big)
        if thresholds and rnd.random() < 0.04:
            ms = rnd.choice(big)
        if name == 'sgr' and rnd.random() < 0.6:
            # complete SGR look-alikes inside literal text
            toks = [[0x1b, 0x5b, 0x30, 0x6d], [0x1b, 0x5b, 0x31, 0x3b, 0x33, 0x32, 0x6d], [0x1b, 0x5b, 0x6d]]
            for t in tcs:
                if rnd.random() < 0.7:
                    pos = rnd.randint(0, len(t)); t[pos:pos] = rnd.choice(toks)
        cases.append({"id": i, "tcs": tcs, "f": ",".join(fl), "mr": mr, "ms": ms, "alpha": name})
    return cases
