"""Kernel cross-check of the correspondence chain.

The correspondence check runs the model after *extraction* to OCaml. Extraction is in the trusted base; this
module reduces that trust: a fixed, reproducible sample of cases (the corpus + generated cases over the whole flag
lattice) is evaluated a second time **inside Coq** (`Eval vm_compute in build …` on the very definitions the
theorems are about) and the three answers are compared: implementation, extracted model, kernel evaluation.

  * kernel ≠ extracted model  ⇒ extraction (or the OCaml driver's decoding) is unfaithful: a broken tie for every property;
  * kernel ≠ implementation    ⇒ the ordinary correspondence break, seen without extraction.

The result is cached on the hash of the compiled model and generated constants plus the implementation binary,
so the 17 checks of one run pay for it once.  This is validation of the tie, not a theorem.
"""
import json, os, re, hashlib, subprocess, time
import runner, cases as casegen

BUILD = runner.BUILD
COQ = runner.COQ
VERIF = runner.VERIF

SC = {'skipped': 'SCSkipped', 'pass1': 'SCPass1', 'pass2': 'SCPass2', 'fail': 'SCFail'}

def coq_str(cps):
    return '[' + '; '.join('%d' % c for c in cps) + ']'

def coq_cfg(case):
    fl = case['f'].split(',') if case['f'] else []
    has = lambda x: 'true' if x in fl else 'false'
    esc = 'true' if ('e' in fl or 'E' in fl) else 'false'
    return '(mkCfg %d %d %s %s %s %s %s %s %s %s %s %s %s %s %s %s %s)' % (
        case.get('mr', 1), case.get('ms', 1), has('d'), has('D'), has('s'), has('S'), has('w'), has('W'), has('r'), has('i'), has('g'),
        esc, has('E'), has('x'), has('ns'), has('ne'), has('c'))

def coq_odb(r):
    ents = []
    for e in r['oracle']:
        ents.append('mkO %s %s [%s]%%nat [%s]' % (coq_str(e['s']), coq_str(e['lower']), '; '.join(str(x) for x in e['seg']),
                                                 '; '.join('true' if b else 'false' for b in e['cat'])))
    return '[' + ';\n    '.join(ents) + ']'

def sample_cases(n_gen=120, seed=20260929):
    cs = []
    corpus = os.path.join(VERIF, 'corpus', 'core.jsonl')
    for l in open(corpus):
        l = l.strip()
        if l:
            c = json.loads(l)
            cs.append({'tcs': c['tcs'], 'f': c.get('f', ''), 'mr': c.get('mr', 1), 'ms': c.get('ms', 1)})
    for c in casegen.generate(seed, n_gen):
        # keep the kernel evaluation cheap: thresholds are N, but long inputs make vm_compute of the quartic substring
        # enumeration slow
        if sum(len(t) for t in c['tcs']) <= 40:
            cs.append({'tcs': c['tcs'], 'f': c['f'], 'mr': c['mr'], 'ms': c['ms']})
    for i, c in enumerate(cs):
        c['id'] = i
    return cs

def run(st):
    """returns {'cases', 'kernel_vs_extracted', 'kernel_vs_impl', 'first', 'cached', 'error'}"""
    if not (st.get('harness_ok') and st.get('driver_ok')):
        return {'error': 'harness or driver not available'}
    h = hashlib.sha256()
    for rel in ('theories/Model/Pipeline.vo', 'theories/Model/Print.vo', 'theories/Model/Expr.vo', 'theories/Model/Dfa.vo', 'theories/Model/Cluster.vo',
                'theories/Base/Str.vo', 'gen/SrcConsts.vo', 'gen/GrexTables.vo', 'gen/OracleTables.vo'):
        p = os.path.join(COQ, rel)
        if not os.path.exists(p):
            return {'error': 'model file not built: ' + rel}
        h.update(open(p, 'rb').read())
    h.update(open(runner.GREXV, 'rb').read())
    h.update(open(runner.DRIVER, 'rb').read())
    h.update(open(os.path.abspath(__file__), 'rb').read())
    h.update(open(os.path.join(VERIF, 'corpus', 'core.jsonl'), 'rb').read())
    key = h.hexdigest()
    cache = os.path.join(BUILD, 'kernelcheck.json')
    if os.path.exists(cache):
        try:
            d = json.load(open(cache))
            if d.get('key') == key:
                d['cached'] = True
                return d
        except Exception:
            pass
    t0 = time.time()
    cs = sample_cases()
    impl = runner.run_impl(cs)
    model = runner.run_model(cs, impl)
    usable = [c for c in cs if c['id'] in impl and 'harness_panic' not in impl[c['id']] and c['id'] in model]
    kd = os.path.join(BUILD, 'kernel')
    os.makedirs(kd, exist_ok=True)
    nsh = 8
    shards = [usable[i::nsh] for i in range(nsh)]
    procs = []
    for k, sh_ in enumerate(shards):
        if not sh_:
            continue
        src = ['From Coq Require Import List NArith. Import ListNotations.',
               'From Grex Require Import Base.Str Base.Ranges Model.Config Model.Cluster Model.Dfa Model.Expr Model.Print Model.Pipeline.',
               'From GrexGen Require Import OracleTables.',
               'Local Open Scope N_scope.',
               'Definition isd (c : cp) : bool := mem_ranges engine_d c.',
               'Set Printing Depth 10000000. Set Printing Width 1000000.']
        for c in sh_:
            r = impl[c['id']]
            sc = SC[runner.selfcheck_of(c, r.get('trace', []))]
            ws = '[' + '; '.join(coq_str(t) for t in c['tcs']) + ']'
            src.append('Definition k%d := build isd %s\n   %s\n   %s %s.' % (c['id'], coq_cfg(c), coq_odb(r), sc, ws))
            src.append('Eval vm_compute in (%d, k%d).' % (c['id'], c['id']))
        path = os.path.join(kd, 'KernelCases%d.v' % k)
        open(path, 'w').write('\n'.join(src) + '\n')
        p = subprocess.Popen(['timeout', '900', 'coqc', '-noglob', '-Q', os.path.join(COQ, 'theories'), 'Grex', '-Q', os.path.join(COQ, 'gen'), 'GrexGen', path],
                             cwd=kd, stdout=subprocess.PIPE, stderr=subprocess.PIPE)
        procs.append(p)
    kern = {}
    errs = []
    for p in procs:
        out, err = p.communicate()
        out = out.decode('utf-8', 'replace')
        if p.returncode != 0:
            errs.append(err.decode('utf-8', 'replace')[-600:])
        for m in re.finditer(r'=\s*\((\d+),\s*(None|Some\s*\[([^\]]*)\])\s*\)', out):
            cid = int(m.group(1))
            if m.group(2) == 'None':
                kern[cid] = '!ERR'
            else:
                nums = re.findall(r'\d+', m.group(3))
                kern[cid] = '[' + ','.join(nums) + ']'
    res = {'key': key, 'cases': len(usable), 'kernel_evaluated': len(kern), 'kernel_vs_extracted': 0, 'kernel_vs_impl': 0, 'first': None,
           'errors': errs[:2], 'wall_s': None, 'cached': False,
           'sample': None}
    for c in usable:
        cid = c['id']
        if cid not in kern:
            continue
        k = kern[cid]
        mo = model[cid].get('out')
        r = impl[cid]
        io = '!ERR' if r.get('panic') is not None else runner.ser_cps(r['out'])
        if k != mo:
            res['kernel_vs_extracted'] += 1
            if res['first'] is None:
                res['first'] = {'case': {x: c[x] for x in ('tcs', 'f', 'mr', 'ms')}, 'kernel': k, 'extracted': mo, 'implementation': io}
        if k != io:
            res['kernel_vs_impl'] += 1
            if res['first'] is None:
                res['first'] = {'case': {x: c[x] for x in ('tcs', 'f', 'mr', 'ms')}, 'kernel': k, 'extracted': mo, 'implementation': io}
        if res['sample'] is None and len(c['tcs']) > 1:
            res['sample'] = {'test_cases': [''.join(map(chr, t)) for t in c['tcs']], 'flags': c['f'], 'kernel_vm_compute': ''.join(chr(int(x)) for x in k.strip('[]').split(',') if x) if k != '!ERR' else None}
    res['wall_s'] = round(time.time() - t0, 1)
    json.dump(res, open(cache, 'w'))
    return res
