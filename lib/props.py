"""Per-property checks: case selection, relevant stages, oracles, known-finding classification,
evidence and the VIOLATION contract."""
import itertools, os, json, time, re, random, subprocess, hashlib
import runner, coqbuild, cases as casegen
from runner import VERIF, BUILD, COQ

EVID = os.path.join(VERIF, 'evidence')
REPLAYS = os.path.join(EVID, 'replays')
KNOWN = json.load(open(os.path.join(VERIF, 'known_findings.json')))

ALL_LOCAL = ['norm', 'clusters_g', 'clusters_k', 'clusters_r', 'trie', 'min', 'expr', 'final', 'out']
PRESENT = ['x', 'g', 'e']

def P(**kw):
    return kw

# flags: which option flags the generator may draw; force: always set; lang: ask the DFA-product oracle
PROPS = {
    'C01': P(flags=['d', 'D', 's', 'S', 'w', 'W', 'r', 'i', 'g', 'e', 'x', 'ns', 'ne'], lang=False, stages=ALL_LOCAL,
             theorems=('C01.v', None), n=(2500, 60000)),
    'C02': P(flags=['g', 'x', 'e'], lang=True, stages=ALL_LOCAL, theorems=('C02.v', None), n=(1500, 40000), thresholds=False),
    'C03': P(flags=['d', 'D', 's', 'S', 'w', 'W', 'i', 'e', 'x', 'g', 'r', 'ns', 'ne'], need_any=['d', 'D', 's', 'S', 'w', 'W'], lang=True,
             stages=['clusters_k', 'clusters_r', 'trie', 'min', 'expr', 'final', 'out'], theorems=('C03.v', None), n=(1500, 40000)),
    'C04': P(flags=['i', 'g', 'x', 'e', 'ns', 'ne', 'd', 'w', 's', 'D', 'W', 'S'], force=['i'], lang=True, stages=['norm', 'clusters_g', 'clusters_k', 'trie', 'min', 'expr', 'final', 'out'],
             theorems=('C04.v', None), n=(1500, 40000), alphabets=['cased', 'ab', 'mixed', 'bound'], thresholds=False),
    'C05': P(flags=['r', 'd', 'w', 's', 'i', 'e', 'x', 'g', 'ns', 'ne'], force=['r'], lang=True, stages=['clusters_r', 'trie', 'min', 'expr', 'final', 'out'],
             theorems=('C05.v', None), n=(1500, 40000)),
    'C06': P(flags=['x', 'g', 'e', 'd', 'w', 's', 'i', 'r', 'D', 'W', 'S', 'ns', 'ne'], need_any=['x', 'g', 'e'], lang=True, stages=['out'],
             theorems=('C06.v', None), n=(1500, 40000)),
    'C07': P(flags=casegen.FLAGS, lang=False, stages=ALL_LOCAL + ['selfcheck'], theorems=('C07.v', None), n=(3000, 80000)),
    'C08': P(flags=['ns', 'ne', 'x', 'i', 'd', 'w', 'r', 'g'], need_any=['ns', 'ne'], lang=True, stages=['expr', 'final', 'out', 'selfcheck'],
             theorems=('C08.v', None), n=(2000, 50000)),
    'C09': P(flags=['d', 'D', 's', 'S', 'w', 'W', 'i', 'e', 'x'], need_any=['d', 'D', 's', 'S', 'w', 'W'], lang=True, stages=['clusters_k'],
             theorems=('C09.v', None), n=(600, 5000), special='c09'),
    'C11': P(flags=['e', 'E', 'r', 'x', 'd', 'w', 'g', 'i', 'ns', 'ne'], need_any=['e', 'E'], lang=True, stages=['expr', 'final', 'out'],
             theorems=('C11.v', None), n=(1500, 40000), alphabets=['astral', 'bound', 'marks', 'mixed', 'cased', 'ws', 'clusters', 'metaext']),
    'C13': P(flags=['r', 'd', 'w', 'x', 'g', 'e', 'i', 'ns', 'ne'], lang=False, stages=['clusters_r', 'trie', 'out'], theorems=('C13.v', None),
             n=(2000, 50000), alphabets=['a', 'ab', 'abc', 'ab.-', 'meta', 'digits']),
    'C15': P(flags=casegen.FLAGS, force=['c'], lang=False, stages=['out', 'selfcheck'], theorems=('C15.v', None), n=(2500, 60000)),
    'C16': P(flags=['r', 'd', 'w', 's', 'g', 'ns', 'ne', 'D', 'W', 'S'], lang=True, stages=['trie', 'min', 'expr', 'out'], theorems=('C16.v', None), n=(1500, 40000)),
    'C10': P(flags=casegen.FLAGS, lang=False, stages=['norm', 'clusters_r', 'min', 'expr', 'out', 'selfcheck'], theorems=('C10.v', None), n=(400, 6000), runner='c10'),
    'C12': P(flags=casegen.FLAGS, lang=False, stages=[], theorems=('C12.v', None), n=(160, 4000), runner='c12'),
    'C14': P(flags=casegen.FLAGS, lang=False, stages=[], theorems=('C14.v', None), n=(600, 20000), runner='c14'),
    'C17': P(flags=[], lang=False, stages=[], theorems=('C17.v', None), n=(600, 20000), runner='c17'),
}

# the fields of a case that a replay needs (call-order variants included)
CASE_KEYS = ('tcs', 'f', 'mr', 'ms', 'thr_first', 'esc_twice')

# number of dense small-alphabet cases (quick, thorough) per property
DENSE = {'C01': (6000, 120000), 'C02': (8000, 150000), 'C03': (4000, 60000), 'C05': (6000, 120000), 'C08': (6000, 120000),
         'C16': (8000, 150000), 'C07': (4000, 60000), 'C13': (3000, 40000), 'C06': (3000, 40000)}

# ------------------------------------------------------------------------------------------
def theorem_names(vfile):
    path = os.path.join(COQ, 'theories', 'Props', vfile)
    if not os.path.exists(path):
        return []
    txt = open(path, encoding='utf-8').read()
    return re.findall(r'^Theorem\s+(\w+)', txt, re.M)

def case_key(c):
    return json.dumps([sorted(map(tuple, c['tcs'])), sorted(c['f'].split(',')), c.get('mr', 1), c.get('ms', 1)])

def nontrivial(c):
    distinct = len(set(map(tuple, c['tcs'])))
    return distinct >= 2 or c['f'] != ''

def flags_of(c):
    return [f for f in c['f'].split(',') if f]

def load_corpus():
    out = []
    d = os.path.join(VERIF, 'corpus')
    for fn in sorted(os.listdir(d)) if os.path.isdir(d) else []:
        if fn.endswith('.jsonl'):
            for l in open(os.path.join(d, fn)):
                l = l.strip()
                if l and not l.startswith('#'):
                    out.append(json.loads(l))
    return out

def select_cases(pid, spec, tier, seed):
    n = spec['n'][0 if tier == 'quick' else 1]
    alph = None
    if spec.get('alphabets'):
        alph = [a for a in casegen.ALPHABETS if a[0] in spec['alphabets']]
    gen = casegen.generate(seed * 7919 + int(hashlib.sha256(pid.encode()).hexdigest()[:6], 16), n, allow_flags=spec['flags'],
                           force_flags=spec.get('force'), alphabets=alph, thresholds=spec.get('thresholds', True))
    rnd = random.Random(seed + 17)
    out = []
    for c in gen:
        fl = flags_of(c)
        if spec.get('need_any') and not any(f in fl for f in spec['need_any']):
            fl.append(rnd.choice(spec['need_any']))
            c['f'] = ','.join(fl)
        out.append(c)
    corpus = []
    for c in load_corpus():
        fl = flags_of(c)
        if all(f in spec['flags'] or f in (spec.get('force') or []) for f in fl):
            if spec.get('need_any') and not any(f in fl for f in spec['need_any']):
                continue
            if spec.get('force') and not all(f in fl for f in spec['force']):
                continue
            corpus.append(dict(c))
    fam = []
    if tier != 'quick' and pid in ('C01', 'C02', 'C05', 'C08', 'C16', 'C07', 'C13'):
        # bounded-exhaustive families: every non-empty subset of {a,b}^{<=3} with the empty string, and of {a,b,c}^{<=2}
        frnd = random.Random(seed + 4242)
        for sigma, k in (([97, 98], 3), ([97, 98, 99], 2)):
            for sub in casegen.small_exhaustive(sigma, k, True):
                fl = list(spec.get('force') or [])
                if frnd.random() < 0.5:
                    fl += [f for f in frnd.sample(spec['flags'], min(2, len(spec['flags']))) if f not in fl]
                if spec.get('need_any') and not any(f in fl for f in spec['need_any']):
                    fl.append(frnd.choice(spec['need_any']))
                if 'E' in fl and 'e' in fl:
                    fl.remove('e')
                fam.append({'tcs': sub, 'f': ','.join(fl), 'mr': frnd.choice([1, 1, 2]), 'ms': frnd.choice([1, 1, 2]), 'alpha': 'exhaustive'})
    if pid in DENSE:
        # dense small-alphabet sets: 4-8 words drawn from a small universe — this is what exercises the rarer
        # rewrite rules of union/concatenate and the Hopcroft splits (seeds C16c, C16d, C08c need >= 4-6 related words)
        drnd = random.Random(seed * 31 + 99 + int(hashlib.sha256(pid.encode()).hexdigest()[:4], 16))
        nd = DENSE[pid][0 if tier == 'quick' else 1]
        unis = []
        for sigma, k in (('abc', 3), ('ab', 4), ('a1', 3), ('ab1 ', 2)):
            u = []
            for n_ in range(1, k + 1):
                for w in itertools.product(sigma, repeat=n_):
                    u.append([ord(ch) for ch in w])
            unis.append(u)
        # two prefixes x run lengths x tails: the region where trie widening makes the automaton non-deterministic
        # (defect F14, seeds C01e/C01f need 5-7 such words); used with conversion of repetitions
        uw = [[ord(ch) for ch in pre + 'b' * k_ + t_] for pre in 'xy' for k_ in (1, 2, 3) for t_ in ('', 'a', 'c', 'ca', 'cc', 'cd')] + [[120], [121]]
        for j in range(nd):
            u = unis[0] if drnd.random() < 0.6 else drnd.choice(unis)
            sub = drnd.sample(u, min(len(u), drnd.randint(4, 8)))
            fl = list(spec.get('force') or [])
            if 'r' in spec['flags'] and drnd.random() < 0.2:
                sub = drnd.sample(uw, drnd.randint(5, 8))
                if 'r' not in fl:
                    fl.append('r')
            if drnd.random() < 0.5:
                fl += [f for f in drnd.sample(spec['flags'], min(drnd.randint(1, 2), len(spec['flags']))) if f not in fl]
            if spec.get('need_any') and not any(f in fl for f in spec['need_any']):
                fl.append(drnd.choice(spec['need_any']))
            if 'ns' in spec['flags'] and drnd.random() < 0.3:
                # both anchors off: the only configuration in which the self-check and the fallback run
                fl += [f for f in ('ns', 'ne') if f not in fl]
                if drnd.random() < 0.5:
                    # ... and the fallback must keep class conversion, verbose layout and repetitions (seeds C05c, C08d)
                    u = unis[2]
                    sub = drnd.sample(u, min(len(u), drnd.randint(3, 6)))
                    fl += [f for f in (drnd.choice(['d', 'w']), drnd.choice(['x', 'r', 'x'])) if f in spec['flags'] and f not in fl]
                    if drnd.random() < 0.5:
                        # class variants: every digit (with \w: every letter too) is replaced by a random member of its class, so
                        # that no test case is a prefix of another as a STRING while the converted clusters are (seed C08e: a
                        # self-check skipped on a string-level prefix test)
                        def vary(w_):
                            o_ = []
                            for ch_ in w_:
                                if 48 <= ch_ <= 57:
                                    o_.append(drnd.choice([48, 49, 50, 51, 53, 57]))
                                elif 'w' in fl and 97 <= ch_ <= 122:
                                    o_.append(drnd.choice([97, 98, 99, 120, 121, 122]))
                                else:
                                    o_.append(ch_)
                            return o_
                        sub = [vary(w_) for w_ in sub]
            if 'E' in fl and 'e' in fl:
                fl.remove('e')
            fam.append({'tcs': sub, 'f': ','.join(fl), 'mr': 1, 'ms': 1, 'alpha': 'dense'})
    if pid in ('C01', 'C03', 'C05', 'C06', 'C07', 'C11', 'C13', 'C16') and 'r' in spec['flags']:
        # multi-code-point clusters that grex keeps whole, repeated: grouping and "single character" decisions
        # (seeds C05d, C06c, C11d, C01c hide behind exactly these inputs)
        ncl = 500 if tier == 'quick' else 6000
        cl_alph = [a for a in casegen.ALPHABETS if a[0] in ('clusters', 'metaext', 'marks')]
        ff = list(spec.get('force') or [])
        for c in casegen.generate(seed * 13 + 5, ncl, allow_flags=spec['flags'], force_flags=ff + (['r'] if 'r' not in ff else []),
                                  alphabets=cl_alph, thresholds=False):
            fl = flags_of(c)
            if spec.get('need_any') and not any(f in fl for f in spec['need_any']):
                fl.append(random.Random(c['id']).choice(spec['need_any']))
                c['f'] = ','.join(fl)
            c['alpha'] = 'clusters+r'
            fam.append(c)
    if pid in ('C01', 'C02', 'C03', 'C05', 'C07', 'C10', 'C11', 'C13', 'C16') or pid in DENSE:
        # SIZE: what small random inputs never reach — many test cases, long test cases, long runs (two- and three-digit
        # repetition counts, counts around 255/256), classes with hundreds of members, alternations with dozens of options
        # (integer narrowing, capacity constants, truncation: round-6 seeds)
        lrnd = random.Random(seed * 977 + 31 + int(hashlib.sha256(pid.encode()).hexdigest()[:4], 16))
        nl = 24 if tier == 'quick' else 240
        def flags_for(extra=()):
            fl = list(spec.get('force') or [])
            fl += [f for f in extra if f in spec['flags'] and f not in fl]
            if lrnd.random() < 0.4:
                fl += [f for f in lrnd.sample(spec['flags'], 1) if f not in fl and f not in ('c',)]
            if spec.get('need_any') and not any(f in fl for f in spec['need_any']):
                fl.append(lrnd.choice(spec['need_any']))
            if 'E' in fl and 'e' in fl:
                fl.remove('e')
            return ','.join(fl)
        for j in range(nl):
            kind = j % 6
            if kind == 0:      # many short test cases: 20..300 words over a..h
                n_ = lrnd.choice([20, 33, 65, 130, 257])
                tcs = [[lrnd.choice(range(97, 105)) for _ in range(lrnd.randint(1, 4))] for _ in range(n_)]
                f_ = flags_for()
            elif kind == 1:    # one long run: a^k for k around the narrowing boundaries, next to a short word
                k_ = lrnd.choice([9, 10, 11, 99, 100, 101, 127, 128, 255, 256, 257])
                tcs = [[97] * k_, [98, 97]] + ([[97] * (k_ + 1)] if lrnd.random() < 0.5 else [])
                f_ = flags_for(('r',))
            elif kind == 2:    # long test cases without repetition structure (200..600 graphemes)
                L_ = lrnd.choice([64, 65, 128, 200, 255, 256, 257])
                tcs = [[lrnd.choice([97, 98, 99, 100, 49, 32, 0xe9, 0x4e2d]) for _ in range(L_)] for _ in range(lrnd.randint(1, 3) if L_ <= 65 else 1)]
                f_ = flags_for()
                if 'r' in f_.split(','):
                    tcs = [t[:70] for t in tcs]   # the quartic substring enumeration of the model
            elif kind == 3:    # a class with hundreds of members: single-code-point test cases from several blocks
                n_ = lrnd.choice([40, 70, 130])
                base_ = lrnd.choice([0x61, 0x100, 0x400, 0x4e00, 0xac00, 0x1f600])
                tcs = [[base_ + 2 * i_] for i_ in range(n_)] + [[base_ + 1]]
                f_ = flags_for()
            elif kind == 4:    # an alternation with dozens of options of equal length, sharing nothing
                n_ = lrnd.choice([11, 17, 33, 70])
                tcs = [[97 + (i_ % 26), 97 + (i_ * 7 % 26), 97 + (i_ * 11 % 26), 48 + i_ % 10] for i_ in range(n_)]
                f_ = flags_for()
            else:              # a repeated unit with a two/three-digit count inside longer text, and nested repetitions
                u_ = [lrnd.choice([97, 98, 99]) for _ in range(lrnd.randint(1, 3))]
                k_ = lrnd.choice([10, 12, 25, 40])
                tcs = [[120] + u_ * k_ + [121], [120] + u_ * (k_ - 1) + [121, 121]]
                f_ = flags_for(('r',))
            fam.append({'tcs': tcs, 'f': f_, 'mr': lrnd.choice([1, 1, 2, 9, 10, 255]), 'ms': lrnd.choice([1, 1, 2, 3]), 'alpha': 'large'})
        # beyond what the extracted model evaluates in seconds (its list-based algorithms are polynomially slower than the
        # implementation): implementation-side oracles only (panic, compile, every test case matched) — marked impl_only
        giant = []
        w300 = [lrnd.choice([97, 98, 99, 100, 101, 102, 103]) for _ in range(297)]
        giant.append(([[97, 97, 97] + w300], ('r',)))                                   # a repetition inside the first 256 graphemes of a longer test case
        giant.append(([[lrnd.choice([97, 98]) for _ in range(700)]], ()))
        giant.append(([[0x4e00 + 3 * i_] for i_ in range(1200)], ()))                   # a class with 1200 members
        giant.append(([[97 + (i_ >> (4 * k_)) % 16 for k_ in range(3)] + [48 + i_ % 7] for i_ in range(4000)], ()))   # 4000 test cases
        if tier != 'quick' or pid in ('C07', 'C01'):
            giant.append(([[97 + ((i_ >> k_) & 1) for k_ in range(16)] for i_ in range(65536)], ()))   # a trie with more than 2^16 states
        for tcs, extra in giant:
            fam.append({'tcs': tcs, 'f': flags_for(extra), 'mr': 1, 'ms': 1, 'alpha': 'giant', 'impl_only': True})
    allc = corpus + out + fam
    for i, c in enumerate(allc):
        c['id'] = i
        c['lang'] = bool(spec.get('lang')) and not c.get('impl_only')
        c['lang_anchor'] = (pid == 'C08') and not c.get('impl_only')
        # the escaping setter takes a value: the last call decides (a third of C11's cases call it with `true` first)
        if pid == 'C11' and i % 3 == 0 and 'e' in flags_of(c):
            c['esc_twice'] = True
    return allc, len(corpus)

# ------------------------------------------------------------------------------------------
# known-finding classes (DESIGN §3.7)
def skew_cps(st):
    d = st.get('dump') or {}
    s = set(oracle_skew(d))
    return s

_skew_cache = {}
def oracle_skew(d):
    if 'v' not in _skew_cache:
        import oracle_gen
        sk = oracle_gen.skew_set(d) if d else []
        low = dict((c, l) for c, l in d.get('lower_single', []))
        _skew_cache['v'] = set(sk) | set(low[c] for c in sk if c in low)
    return _skew_cache['v']

def known_for(pid, case, r, fail, st):
    """the id of the known finding (listed for this property) that explains the failure, or None"""
    k = classify(case, r, fail, st)
    if k and any(x['id'] == k and pid in x['properties'] for x in KNOWN['known']):
        return k
    return None

def classify(case, r, fail, st):
    """returns the id of the known class a failure belongs to, or None"""
    v = r.get('verdicts', {})
    fl = flags_of(case)
    kind = fail['kind']
    skew = oracle_skew(st.get('dump') or {})
    has_skew = 'i' in fl and any(c in skew for t in case['tcs'] for c in t)
    if kind == 'compile':
        # K5: valid, but larger than the regex crate's default size limit; accepted with a raised limit
        if 'size limit' in str(fail.get('detail')) and v.get('compile_with_raised_limit') is True:
            return 'K5'
        return None
    if kind == 'unmatched':
        um = fail['unmatched']
        if v.get('k4') and all(t == [] for t in um):
            return 'K4'
        if has_skew and (not any(t == [] for t in um) or v.get('k4')):
            return 'K3'
        return None
    if kind == 'lang':
        w = fail['witness']; out_accepts = fail['out_accepts']
        if not out_accepts and w == [] and v.get('k4'):
            return 'K4'
        if out_accepts and 'r' in fl and v.get('k1_merge') and v.get('k1_trie_accepts_lang', True):
            return 'K1'
        if has_skew:
            return 'K3'
        return None
    if kind == 'lang_anchor':
        # the two builds differ only through a known defect of one of them: epsilon lost by the anchored build (K4),
        # or the anchored build over-matches through trie widening while the anchor-free fallback is exact (K1)
        if fail['witness'] == [] and v.get('k4'):
            return 'K4'
        if 'r' in fl and v.get('k1_merge') and v.get('k1_trie_accepts_lang_anchor', True):
            return 'K1'
        return None
    if kind == 'find':
        if v.get('k4') and fail.get('t') == []:
            return 'K4'
        if 'ne' in fl and fail.get('k2'):
            return 'K2'
        return None
    return None

# ------------------------------------------------------------------------------------------
# oracles per property: return list of failure dicts
def presentable(case):
    fl = flags_of(case)
    return 'E' not in fl and 'c' not in fl

def f_panic(case, r):
    if r.get('panic') is not None:
        return [{'kind': 'panic', 'detail': r['panic'][:300]}]
    return []

def f_compile(case, r):
    v = r.get('verdicts', {})
    if presentable(case) and v.get('compile') is not True and 'compile' in v:
        return [{'kind': 'compile', 'detail': str(v.get('compile'))[:300]}]
    if v.get('judge_error') and 'E' not in flags_of(case):
        return [{'kind': 'compile', 'detail': 'judge: ' + v['judge_error'][:300]}]
    return []

def f_unmatched(case, r):
    v = r.get('verdicts', {})
    if v.get('unmatched'):
        return [{'kind': 'unmatched', 'unmatched': v['unmatched'], 'detail': 'test cases not matched in full: %s' % v['unmatched'][:3]}]
    return []

def f_lang(case, r):
    v = r.get('verdicts', {})
    l = v.get('lang')
    if isinstance(l, dict) and 'witness_bytes' in l:
        return [{'kind': 'lang', 'witness': l['witness'], 'out_accepts': l['out_accepts'],
                 'detail': 'language differs from the specification on %s (pattern %s it)' % (l['witness'], 'accepts' if l['out_accepts'] else 'rejects')}]
    return []

def f_lang_anchor(case, r):
    l = r.get('verdicts', {}).get('lang_anchor')
    if isinstance(l, dict) and 'witness' in l:
        return [{'kind': 'lang_anchor', 'witness': l['witness'], 'out_accepts': l['out_accepts'],
                 'detail': 'without the anchor(s) the body %s %s in full, the same build with both anchors (%s) does not agree'
                           % ('matches' if l['out_accepts'] else 'does not match', l['witness'], ''.join(map(chr, l.get('anchored', []))))}]
    return []

def k2_on_model(model_out, t):
    """does the pattern printed by the MODEL also fail to find the whole test case t (PikeVM judge)?"""
    try:
        p = [int(x) for x in model_out.strip('[]').split(',') if x.strip()] if isinstance(model_out, str) else list(model_out)
        rc, out, err = runner.sh([runner.GREXV, 'match'], inp=(json.dumps({'p': p, 'hs': [t]}) + '\n').encode())
        res = [json.loads(l) for l in out.splitlines() if l.startswith('{')]
        return not (res and res[0]['find'] and res[0]['find'][0] == [0, len(t)])
    except Exception:
        return True

def model_out_admissible(case, r):
    """Seed C08e: the implementation skipped the self-check although the configuration does not allow that. The model followed the
    recorded (inadmissible) outcome, so its output equals the implementation's and says nothing about the unchanged code. Emulate the
    self-check the unchanged code runs — `find_iter(tc).count() == 1` for every normalised test case, by the optimised engine, on the
    model's first and second candidate — and return the model's output under that outcome."""
    try:
        tcs = None
        for s_, t_ in r.get('trace', []):
            if s_ == 'norm':
                tcs = t_
                break
        hs = [list(t) for t in case['tcs']]
        for sc in ('pass1', 'pass2'):
            o = runner.model_out_with_sc(case, r, sc)
            if o in (None, '!ERR'):
                return None
            p = [int(x) for x in o.strip('[]').split(',') if x.strip()]
            rc, out, err = runner.sh([runner.GREXV, 'match'], inp=(json.dumps({'p': p, 'hs': hs}) + '\n').encode())
            res = [json.loads(l) for l in out.splitlines() if l.startswith('{')]
            if res and all(c == 1 for c in res[0].get('meta_count', [None])):
                return o
        return runner.model_out_with_sc(case, r, 'fail')
    except Exception:
        return None

def f_find(case, r):
    v = r.get('verdicts', {})
    out = []
    for b in v.get('find_bad', []) or []:
        out.append({'kind': 'find', 'k2': b.get('k2'), 't': b['t'], 'detail': 'find(%s) = %s' % (b['t'], b['span'])})
    return out

def out_str(r):
    return ''.join(map(chr, r.get('out', [])))

def f_anchor_syntax(case, r):
    fl = flags_of(case)
    if 'c' in fl or r.get('out') is None:
        return []
    s = out_str(r)
    s2 = re.sub(r'^\(\?(?:i|x|ix)\)\n?', '', s)
    fails = []
    starts = s2.startswith('^')
    body = s[:-1] if s.endswith('$') else s
    nbs = len(body) - len(body.rstrip('\\'))
    ends = s.endswith('$') and nbs % 2 == 0
    if starts != ('ns' not in fl):
        fails.append({'kind': 'anchor', 'detail': 'start anchor %s but option says %s' % (starts, 'ns' not in fl)})
    if ends != ('ne' not in fl):
        fails.append({'kind': 'anchor', 'detail': 'end anchor %s but option says %s' % (ends, 'ne' not in fl)})
    return fails

def f_flag_prefix(case, r):
    fl = flags_of(case)
    if 'c' in fl or r.get('out') is None:
        return []
    s = out_str(r)
    want = '(?ix)\n' if ('i' in fl and 'x' in fl) else '(?i)' if 'i' in fl else '(?x)\n' if 'x' in fl else ''
    # the properties ask for the flag group at the start; the line break after it is layout and is absent when nothing
    # follows (the empty test case with both anchors off prints just "(?x)": Props/C06 verbose_flag_line_counterexample)
    ok = (s.startswith(want) or (want.endswith('\n') and s == want[:-1])) and (want != '' or not s.startswith('(?i') and not s.startswith('(?x'))
    return [] if ok else [{'kind': 'flag', 'detail': 'flag prefix of %r is not %r' % (s[:8], want)}]

def f_groups(case, r):
    v = r.get('verdicts', {})
    g = v.get('groups')
    if g is None:
        return []
    cap, non = g
    if 'g' in flags_of(case):
        return [{'kind': 'groups', 'detail': '%d non-capturing groups with capturing groups requested' % non}] if non else []
    return [{'kind': 'groups', 'detail': '%d capturing groups without the option' % cap}] if cap else []

def f_thresholds(case, r):
    v = r.get('verdicts', {})
    reps = v.get('counted')
    if reps is None:
        return []
    fl = flags_of(case)
    fails = []
    if 'r' not in fl and reps:
        fails.append({'kind': 'braces', 'detail': 'counted repetition %s without the option' % reps[:3]})
    if 'r' in fl:
        for m, n, l in reps:
            if not (n > case.get('mr', 1)):
                fails.append({'kind': 'threshold', 'detail': '{%d,%d}: upper count not above minimum repetitions %d' % (m, n, case.get('mr', 1))})
            if not (l >= case.get('ms', 1)):
                fails.append({'kind': 'threshold', 'detail': '{%d,%d} on a unit of length %d below minimum substring length %d' % (m, n, l, case.get('ms', 1))})
    return fails

def f_ascii(case, r):
    v = r.get('verdicts', {})
    fails = []
    if 'ascii' in v and v['ascii'] is not True:
        fails.append({'kind': 'ascii', 'detail': 'non-ASCII character in escaped output'})
    fl = flags_of(case)
    if r.get('out') is not None and ('e' in fl or 'E' in fl) and 'c' not in fl:
        s = out_str(r)
        for m in re.finditer(r'\\u\{([0-9a-f]+)\}', s):
            cp = int(m.group(1), 16)
            if 'E' in fl and cp > 0xffff:
                fails.append({'kind': 'escape-form', 'detail': 'astral escape %s with surrogate pairs requested' % m.group(0)}); break
            if 'E' not in fl and 0xd800 <= cp <= 0xdfff:
                fails.append({'kind': 'escape-form', 'detail': 'surrogate escape %s without the option' % m.group(0)}); break
        if 'E' in fl:
            # surrogates must come in well-formed pairs
            toks = [int(m.group(1), 16) for m in re.finditer(r'\\u\{([0-9a-f]+)\}', s)]
            i = 0
            while i < len(toks):
                if 0xd800 <= toks[i] <= 0xdbff:
                    if i + 1 >= len(toks) or not (0xdc00 <= toks[i + 1] <= 0xdfff):
                        fails.append({'kind': 'escape-form', 'detail': 'unpaired high surrogate'}); break
                    i += 2; continue
                if 0xdc00 <= toks[i] <= 0xdfff:
                    fails.append({'kind': 'escape-form', 'detail': 'unpaired low surrogate'}); break
                i += 1
    return fails

def f_colour(case, r):
    v = r.get('verdicts', {})
    if 'colour_strip_eq' in v and v['colour_strip_eq'] is not True:
        return [{'kind': 'colour', 'detail': 'stripped highlighted output differs from plain output: %r' % (v.get('colour_plain') and ''.join(map(chr, v['colour_plain']))[:200])}]
    return []

def residual_count(tokens_list):
    """number of states of the minimal DFA (no dead state) of a finite set of token sequences"""
    words = set(tuple(w) for w in tokens_list)
    prefixes = set()
    for w in words:
        for i in range(len(w) + 1):
            prefixes.add(w[:i])
    res = set()
    for p in prefixes:
        res.add(frozenset(w[len(p):] for w in words if w[:len(p)] == p))
    return len(res)

def f_minimal(case, r):
    """C16: with repetition conversion off the minimised automaton has one state per distinct
    right language (computed independently from the cluster snapshot)"""
    fl = flags_of(case)
    if 'r' in fl or r.get('panic') is not None:
        return []
    tr = dict((s, t) for s, t in reversed(r.get('trace', [])))
    if 'clusters_r' not in tr or 'min' not in tr:
        return []
    cls = [re.findall(r'G\(([^|]*)\|', c) for c in tr['clusters_r'].split(' ')] if tr['clusters_r'] else [[]]
    if tr['clusters_r'] == '':
        cls = [[]]
    want = residual_count(cls)
    m = re.match(r'n=(\d+)', tr['min'])
    got = int(m.group(1))
    v = r.get('verdicts', {})
    if got != want:
        # K4 loses the finality of the root, which can merge/split nothing else: the count still has to agree
        return [{'kind': 'minimal', 'detail': 'minimised automaton has %d states, the language has %d distinct right languages' % (got, want)}]
    # determinism: no state with two equal outgoing labels
    edges = re.findall(r'(\d+)>(\d+):G\(([^|]*)\|', tr['min'])
    seen = set()
    for a, b, l in edges:
        if (a, l) in seen:
            return [{'kind': 'minimal', 'detail': 'state %s has two outgoing edges labelled %s' % (a, l)}]
        seen.add((a, l))
    return []

ORACLES = {
    'C01': [f_panic, f_compile, f_unmatched],
    'C02': [f_panic, f_compile, f_lang],
    'C03': [f_panic, f_compile, f_unmatched, f_lang],
    'C04': [f_panic, f_compile, f_flag_prefix, f_unmatched, f_lang],
    'C05': [f_panic, f_compile, f_lang],
    'C06': [f_panic, f_compile, f_flag_prefix, f_groups, f_lang],
    'C07': [f_panic, f_compile],
    'C08': [f_panic, f_anchor_syntax, f_find, f_lang_anchor],
    'C09': [f_panic, f_compile, f_unmatched, f_lang],
    'C11': [f_panic, f_ascii, f_lang],
    'C13': [f_panic, f_thresholds],
    'C15': [f_panic, f_colour],
    'C16': [f_panic, f_lang, f_minimal],
}

# ------------------------------------------------------------------------------------------
def c09_cases(st, tier, seed):
    """single-character test cases on every table boundary +-1 (grex tables and engine tables) x 6 flags"""
    d = st.get('dump') or {}
    pts = set()
    for k in ['engine_d', 'engine_w', 'engine_s', 'grex_d', 'grex_w', 'grex_s']:
        for a, b in d.get(k, []):
            for x in (a - 1, a, b, b + 1):
                if 0 <= x <= 0x10ffff and not (0xd800 <= x <= 0xdfff):
                    pts.add(x)
    pts = sorted(pts)
    rnd = random.Random(seed)
    out = []
    for x in pts:
        for f in (['d', 'D', 's', 'S', 'w', 'W'] if tier != 'quick' else [rnd.choice(['d', 'D', 's', 'S', 'w', 'W']), rnd.choice(['d', 'w', 's'])]):
            out.append({'tcs': [[x]], 'f': f, 'mr': 1, 'ms': 1, 'alpha': 'boundary'})
    if tier != 'quick':
        for x in rnd.sample(pts, min(len(pts), 400)):
            fl = [f for f in ['d', 'D', 's', 'S', 'w', 'W'] if rnd.random() < 0.5]
            out.append({'tcs': [[x]], 'f': ','.join(fl), 'mr': 1, 'ms': 1, 'alpha': 'boundary'})
    # the classification must not depend on the other options: the same points with (?i) (outside K3's skew set, which is not
    # a finding about this property), escaping and verbose mode — seeds C04d / C09d lower-cased the class tokens under -i
    skew = oracle_skew(d)
    for x in (pts if tier != 'quick' else rnd.sample(pts, min(len(pts), 600))):
        extra = rnd.choice(['i', 'i', 'e', 'x'])
        if extra == 'i' and (x in skew or chr(x).lower() != chr(x) and len(chr(x).lower()) != 1):
            continue
        out.append({'tcs': [[x]], 'f': rnd.choice(['d', 'D', 's', 'S', 'w', 'W']) + ',' + extra, 'mr': 1, 'ms': 1, 'alpha': 'boundary'})
    return out

def setup_extra():
    return {}

# ------------------------------------------------------------------------------------------
def write_replay(pid, n, obj):
    os.makedirs(REPLAYS, exist_ok=True)
    path = os.path.join(REPLAYS, '%s-%d.json' % (pid, n))
    json.dump(obj, open(path, 'w'), indent=1)
    return os.path.relpath(path, VERIF)

def shrink(pid, case, spec, fails_fn):
    """greedy: drop test cases, drop characters, clear flags while the same kind of failure persists"""
    best = dict(case)
    budget = [120]
    def still(c):
        if budget[0] <= 0:
            return False
        budget[0] -= 1
        c = dict(c); c['id'] = 0; c['lang'] = bool(spec.get('lang'))
        r = runner.run_impl([c], threads=1).get(0)
        return r is not None and bool(fails_fn(c, r))
    changed = True
    while changed and budget[0] > 0:
        changed = False
        for i in range(len(best['tcs'])):
            if len(best['tcs']) > 1:
                c = dict(best); c['tcs'] = best['tcs'][:i] + best['tcs'][i + 1:]
                if still(c):
                    best = c; changed = True; break
        if changed: continue
        for i, t in enumerate(best['tcs']):
            for j in range(len(t)):
                c = dict(best); c['tcs'] = [list(x) for x in best['tcs']]; c['tcs'][i] = t[:j] + t[j + 1:]
                if still(c):
                    best = c; changed = True; break
            if changed: break
        if changed: continue
        fl = flags_of(best)
        for f in fl:
            if f in (spec.get('force') or []):
                continue
            c = dict(best); c['f'] = ','.join(x for x in fl if x != f)
            if spec.get('need_any') and not any(x in flags_of(c) for x in spec['need_any']):
                continue
            if still(c):
                best = c; changed = True; break
    return best

def theorem_status(pid, spec, st):
    vfile = spec['theorems'][0]
    names = theorem_names(vfile)
    rel = 'theories/Props/' + vfile
    built = st['coq_built'].get(rel, False)
    res = {}
    if names and built:
        res = coqbuild.audit_theorems(vfile, names)
    else:
        res = {n: {'ok': False, 'statement': '', 'assumptions': 'not built'} for n in names}
    return names, built, res

def correspondence(pid, spec, res, st, allc, impl=None):
    broken = res['broken']
    if impl is None:
        impl = runner.run_impl(allc)
    model = {}
    if st['driver_ok']:
        model = runner.run_model([c for c in allc if not c.get('impl_only')], impl)
    else:
        broken.append('model/driver not available: ' + '; '.join(st['errors'])[:600])
    stage_diffs = {}
    first_diff = None
    compared = 0
    for c in allc:
        r = impl.get(c['id'])
        if r is None or 'harness_panic' in r:
            broken.append('harness failed on case %s: %s' % (c['id'], (r or {}).get('harness_panic')))
            continue
        if not r.get('lower_idem', True):
            broken.append('assumption lower_idem violated by std on case %s' % c['id'])
        m = model.get(c['id'])
        if m is None:
            continue
        compared += 1
        e2e, loc = runner.compare(c, r, m)
        diffs = [(s, a, b) for (s, a, b) in loc if s in spec['stages']]
        if 'norm' in spec['stages']:
            diffs += [(s, a, b) for (s, a, b) in e2e if s in ('norm', 'panic')]
        if 'out' in spec['stages'] and not loc and e2e and e2e[0][0] == 'out':
            diffs.append(e2e[0])
        # 'final' has no stage-local replay: when every earlier stage agrees end to end, a difference in the
        # chosen final expression is a difference of the self-check/fallback step itself
        if ('final' in spec['stages'] or 'out' in spec['stages']) and not loc and e2e and e2e[0][0] == 'final':
            diffs.append(e2e[0])
        if '!CRASH' in m:
            diffs.append(('driver', '', m['!CRASH']))
        for s, a, b in diffs:
            stage_diffs[s] = stage_diffs.get(s, 0) + 1
            if first_diff is None:
                first_diff = {'stage': s, 'case': {k: c[k] for k in CASE_KEYS if k in c}, 'implementation': a, 'model': b}
    if first_diff:
        broken.append('correspondence broken at stage(s) %s (first: stage %s)' % (sorted(stage_diffs), first_diff['stage']))
    res['first_diff'] = first_diff
    res['stats'].update({'compared': compared, 'stage_diffs': stage_diffs})
    return impl

def distribution(res, allc, impl=None):
    keys = set(); nontriv = set(); flagc = {}; alph = {}
    for c in allc:
        k = case_key(c); keys.add(k)
        if nontrivial(c): nontriv.add(k)
        for f in flags_of(c): flagc[f] = flagc.get(f, 0) + 1
        alph[c.get('alpha', 'corpus')] = alph.get(c.get('alpha', 'corpus'), 0) + 1
    sc = {}
    if impl:
        for c in allc:
            r = impl.get(c['id'])
            if r and 'trace' in r:
                s = runner.selfcheck_of(c, r['trace']) if ('ns' in flags_of(c) and 'ne' in flags_of(c)) else 'n/a'
                sc[s] = sc.get(s, 0) + 1
    res['stats'].update({'distinct': len(keys), 'distinct_nontrivial': len(nontriv), 'flags': flagc, 'alphabets': alph, 'selfcheck': sc,
                         'sizes': {'max_tcs': max([len(c['tcs']) for c in allc] + [0]), 'max_len': max([len(t) for c in allc for t in c['tcs']] + [0])}})

def lines_validation(res, cs, seed):
    """the Coq model of str::lines against the real function on generated file contents"""
    rnd = random.Random(seed + 99)
    texts = []
    for c in cs[:300]:
        sep = rnd.choice([[10], [13, 10], [13]])
        t = []
        for i, w in enumerate(c['tcs']):
            t += w + (sep if i + 1 < len(c['tcs']) or rnd.random() < 0.5 else [])
        texts.append(t)
    texts += [[], [10], [13, 10], [10, 10], [97, 13], [97, 13, 10, 13, 10], [13]]
    inp = ("\n".join(json.dumps(t) for t in texts) + "\n").encode()
    rc, out, err = runner.sh([runner.GREXV, 'lines'], inp=inp)
    real = [json.loads(l) for l in out.splitlines() if l.startswith('[')]
    rc2, out2, err2 = runner.sh([runner.DRIVER, '--lines'], inp=("\n".join(",".join(map(str, t)) for t in texts) + "\n").encode())
    model = []
    for l in out2.splitlines():
        model.append([[int(x) for x in w.split(',') if x] for w in l.split(';')] if l != '-' else [])
    bad = [(t, a, b) for t, a, b in zip(texts, real, model) if a != b]
    res['stats']['lines_validated'] = len(texts)
    if rc != 0 or rc2 != 0 or len(real) != len(texts) or len(model) != len(texts):
        res['broken'].append('str::lines validation could not run (%s / %s)' % (err[-200:], err2[-200:]))
    elif bad:
        res['broken'].append('Coq model of str::lines disagrees with Rust on %s: %s vs %s' % bad[0])

HELPERS = {'load_corpus': None, 'correspondence': correspondence, 'distribution': distribution, 'lines_validation': lines_validation}

def run_property(pid, tier, seed):
    spec = PROPS[pid]
    if os.path.isdir(REPLAYS):
        for fn in os.listdir(REPLAYS):
            if fn.startswith(pid + '-'):
                os.remove(os.path.join(REPLAYS, fn))
    st = coqbuild.prepare()
    broken = []
    terrs = ['translator: %s: %s' % (name, s_) for name, s_ in st['translator'].items() if s_.startswith('ERROR')]
    for rel, why in st['audit']:
        broken.append('audit: %s %s' % (rel, why))
    names, built, thm = theorem_status(pid, spec, st)
    if not built:
        log = st.get('make_log', '')
        m = re.search(r'File "\./theories/[^"]*", line \d+.*?\n(?:.*\n){0,6}', log)
        broken.append('proof obligations of theories/Props/%s do not check (make failed)%s' % (spec['theorems'][0], ': ' + m.group(0)[:600] if m else ''))
        broken.extend(terrs)     # a source shape the translator no longer recognises is a broken tie for the files that depend on it
    if pid == 'C07':
        ps = st.get('panic_sites') or {}
        if ps.get('error'):
            broken.append('panic-site audit could not run: %s' % ps['error'])
        elif ps.get('new'):
            broken.append('panic sites of the library code that the model does not account for (translator/panic_sites.allow): %s'
                          % '; '.join(x.replace('\t', ' | ') for x in ps['new'][:6]))
    for n in names:
        if built and not thm[n]['ok']:
            broken.append('theorem %s depends on: %s' % (n, thm[n]['assumptions']))
    chk = None
    if tier == 'thorough' and built and names:
        ok_, axioms_, tail_ = coqbuild.coqchk(spec['theorems'][0])
        chk = {'ok': ok_, 'axioms': axioms_}
        if not ok_:
            broken.append('coqchk does not accept theories/Props/%s: axioms=%s %s' % (spec['theorems'][0], axioms_, tail_[-300:]))
    res = {'pid': pid, 'tier': tier, 'seed': seed, 'coqchk': chk, 'broken': broken, 'violations': [], 'known': {}, 'theorems': thm, 'names': names,
           'st': st, 'samples': [], 'stats': {}}
    if not st['harness_ok']:
        broken.append('implementation does not build with hooks: ' + '; '.join(st['errors'])[:800])
        return res
    # extraction is in the trusted base of the correspondence check: a fixed sample is evaluated a second time inside Coq
    # (vm_compute on the definitions the theorems are about) and compared with the extracted model and the implementation
    try:
        import kernelcheck
        kc = kernelcheck.run(st)
    except Exception as e:
        kc = {'error': repr(e)}
    res['stats']['kernel_cross_check'] = {k: kc.get(k) for k in ('cases', 'kernel_evaluated', 'kernel_vs_extracted', 'kernel_vs_impl', 'first', 'errors', 'error', 'wall_s', 'cached', 'sample')}
    if kc.get('kernel_vs_extracted'):
        broken.append('extracted model differs from the kernel evaluation of the same definitions on %d of %d cases (extraction or driver unfaithful): %s'
                      % (kc['kernel_vs_extracted'], kc.get('kernel_evaluated', 0), json.dumps(kc.get('first'))[:400]))
    if spec.get('runner'):
        import extra
        HELPERS['load_corpus'] = load_corpus
        fn = {'c10': extra.run_c10, 'c12': extra.run_c12, 'c14': extra.run_c14, 'c17': extra.run_c17}[spec['runner']]
        res = fn(pid, spec, res, st, tier, seed, HELPERS)
        for kf in KNOWN['known']:
            if pid in kf['properties']:
                res['known'][kf['id']] = {'still_fails': True, 'what': kf['what'], 'class_failures_in_run': res['stats'].get('known_class_failures', {}).get(kf['id'], 0)}
        return res
    if spec.get('special') == 'c09':
        base, ncorp = select_cases(pid, spec, tier, seed)
        extra = c09_cases(st, tier, seed)
        allc = [c for c in base[:ncorp] + extra + base[ncorp:ncorp + 300] if all(len(t) > 0 for t in c['tcs'])]
        for i, c in enumerate(allc):
            c['id'] = i; c['lang'] = True
    else:
        allc, ncorp = select_cases(pid, spec, tier, seed)
    t0 = time.time()
    impl = runner.run_impl(allc)
    res['stats']['t_impl'] = round(time.time() - t0, 1)
    model = {}
    if st['driver_ok']:
        model = runner.run_model([c for c in allc if not c.get('impl_only')], impl)
    else:
        broken.append('model/driver not available: ' + '; '.join(st['errors'])[:600])
    res['stats']['t_model'] = round(time.time() - t0, 1)
    # correspondence on the stages this property depends on
    stage_diffs = {}
    first_diff = None
    diff_cases = []
    diff_out = []
    compared = 0
    oracle_miss = 0
    runner.SC_STATS.update({'compared': 0, 'agree': 0, 'engine_inconsistency': 0, 'unexplained': 0, 'examples': []})
    for c in allc:
        r = impl.get(c['id'])
        if r is None or 'harness_panic' in r:
            broken.append('harness failed on case %s: %s' % (c['id'], (r or {}).get('harness_panic')))
            continue
        if not r.get('lower_idem', True):
            broken.append('assumption lower_idem violated by std on case %s' % c['id'])
        m = model.get(c['id'])
        if m is None:
            continue
        compared += 1
        e2e, loc = runner.compare(c, r, m)
        diffs = [(s, a, b) for (s, a, b) in loc if s in spec['stages']]
        if 'norm' in spec['stages']:
            diffs += [(s, a, b) for (s, a, b) in e2e if s in ('norm', 'panic')]
        if 'out' in spec['stages'] and not loc and e2e and e2e[0][0] == 'out':
            diffs.append(e2e[0])
        # 'final' has no stage-local replay: when every earlier stage agrees end to end, a difference in the
        # chosen final expression is a difference of the self-check/fallback step itself
        if ('final' in spec['stages'] or 'out' in spec['stages']) and not loc and e2e and e2e[0][0] == 'final':
            diffs.append(e2e[0])
        for s, a, b in diffs:
            stage_diffs[s] = stage_diffs.get(s, 0) + 1
            if first_diff is None:
                first_diff = {'stage': s, 'case': c, 'implementation': a, 'model': b}
        if diffs:
            # inputs whose final output differs as well come first: there the language may differ
            if any(st_ == 'out' for st_, _, _ in e2e):
                if len(diff_out) < 40: diff_out.append(c)
            elif len(diff_cases) < 40:
                diff_cases.append(c)
    if first_diff:
        broken.append('correspondence broken at stage(s) %s (first: stage %s)' % (sorted(stage_diffs), first_diff['stage']))
    res['first_diff'] = first_diff
    res['stats'].update({'cases': len(allc), 'corpus': ncorp, 'compared': compared, 'stage_diffs': stage_diffs})
    res['stats']['selfcheck_tie'] = json.loads(json.dumps(runner.SC_STATS))
    # the model of the regex crate (Engine/*.v) is validated against the real crate on every run of the
    # properties whose theorems speak about parsing/matching
    if pid in ('C01', 'C02', 'C06', 'C07', 'C08', 'C11') and st['driver_ok']:
        import engineval
        nval = 250 if tier == 'quick' else 4000
        ev = engineval.run(seed + 1, nval)
        sv = engineval.validate_semantics(seed + 1, nval)
        if 'error' in ev or ev.get('disagree'):
            broken.append('engine parser model disagrees with regex_syntax: %s' % (ev.get('error') or json.dumps(ev['disagree'][0])[:300]))
        if 'error' in sv or sv.get('full_disagree') or sv.get('find_disagree') or sv.get('first_disagree'):
            broken.append('engine matching model disagrees with the regex crate: %s' % (sv.get('error') or json.dumps((sv['full_disagree'] + sv['find_disagree'] + sv.get('first_disagree', []))[0])[:300]))
        res['stats']['engine_model'] = {'parser_patterns': ev.get('total'), 'parser_agree': ev.get('agree'), 'parser_model_rejects_only': ev.get('model_rejects_only'),
                                        'semantics_patterns': sv.get('patterns'), 'semantics_haystacks': sv.get('haystacks'),
                                        'leftmost_first_spans_compared': sv.get('first_compared'), 'find_iter_counts_compared': sv.get('count_compared')}
    # oracles on the implementation
    def fails_of(c, r):
        out = []
        for f in ORACLES[pid]:
            out += f(c, r)
        return out
    unknown = []
    known_counts = {}
    undecided = 0
    incons = 0
    # K1's class, second half: the over-matched string must already be accepted by the MODEL's trie (printed as a
    # pattern by the driver, judged by PikeVM) — Proofs/MergeLang: the final language lies within the trie language,
    # so an over-match the trie does not explain comes from somewhere else and is not K1
    k1q = []
    for c in allc:
        r = impl.get(c['id']); mm = model.get(c['id'])
        if r is None or mm is None or 'harness_panic' in r:
            continue
        for key in ('lang', 'lang_anchor'):
            l = r.get('verdicts', {}).get(key)
            if isinstance(l, dict) and 'witness' in l and mm.get('trie_pat') not in (None, '!ERR'):
                k1q.append((c['id'], key, mm['trie_pat'], l['witness']))
    if k1q:
        from concurrent.futures import ThreadPoolExecutor
        def shard(items):
            inp = ''.join(json.dumps({'p': [int(x) for x in tp.strip('[]').split(',') if x.strip()], 'hs': [w]}) + '\n' for (_, _, tp, w) in items)
            rc, outm, err = runner.sh([runner.GREXV, 'match'], inp=inp.encode())
            return [json.loads(l) for l in outm.splitlines() if l.startswith('{')]
        nsh = 16
        parts = [k1q[i::nsh] for i in range(nsh)]
        with ThreadPoolExecutor(nsh) as ex:
            outs = list(ex.map(shard, parts))
        resm = [None] * len(k1q)
        okm = all(len(o) == len(pt) for o, pt in zip(outs, parts))
        if okm:
            for i in range(nsh):
                for j, rm in enumerate(outs[i]):
                    resm[i + j * nsh] = rm
        if okm:
            for (cid, key, _, _), rm in zip(k1q, resm):
                impl[cid]['verdicts']['k1_trie_accepts_' + key] = bool(rm['full'] and rm['full'][0])
    for c in allc:
        r = impl.get(c['id'])
        if r is None or 'harness_panic' in r:
            continue
        v = r.get('verdicts', {})
        # the class of K1 is defined on the MODEL (Dfa.no_merge, extracted): the modelled widening branch is taken
        mm = model.get(c['id'])
        if mm is not None and 'no_merge' in mm and isinstance(v, dict):
            v['k1_merge'] = (mm['no_merge'] == '0')
        if isinstance(v.get('lang'), dict) and 'undecided' in v['lang']:
            undecided += 1
        if v.get('engine_inconsistencies'):
            incons += 1
        for fl in fails_of(c, r):
            k = known_for(pid, c, r, fl, st)
            if k == 'K2' and mm is not None and mm.get('sc_ok') == '0' and r.get('out') is not None:
                mo_ = model_out_admissible(c, r)
                if mo_ not in (None, '!ERR') and not k2_on_model(mo_, fl.get('t')):
                    k = None
            if k == 'K2' and mm is not None and r.get('out') is not None and mm.get('out') not in (None, '!ERR') \
                    and mm.get('out') != runner.ser_cps(r['out']):
                # K2 is a finding about the unchanged code, which the model reproduces: when the implementation's
                # output differs from the model's, the class only explains the failure if the model's pattern fails
                # on the same test case too (seed C08c: a changed alternation order, failures inside K2's class)
                if not k2_on_model(mm['out'], fl.get('t')):
                    k = None
            if k:
                known_counts[k] = known_counts.get(k, 0) + 1
            else:
                unknown.append((c, r, fl))
    if pid == 'C08':
        import extra
        unknown += [(c, {'out': None}, fl) for c, fl in extra.cli_anchor_probe(res, seed)]
        # SEARCH CORRESPONDENCE: the span `find` reports for every test case, predicted by the priority model of the regex
        # crate (Engine/Prio.v: find_first on the MODEL's parsed output, extracted) against the PikeVM on the IMPLEMENTATION's
        # output. The theorems C08_find_first_* speak about find_first; this is what ties it to the crate on the property's domain,
        # K2 instances included (there the model predicts the shorter span).
        if st['driver_ok']:
            items = []
            for c in allc:
                fl_ = set(c.get('f', '').split(','))
                r = impl.get(c['id']); mm = model.get(c['id'])
                if not (fl_ & {'ns', 'ne'}) or r is None or mm is None or r.get('out') is None or 'harness_panic' in r:
                    continue
                if mm.get('out') in (None, '!ERR') or mm.get('out') != runner.ser_cps(r['out']):
                    continue
                items.append((r['out'], [list(t) for t in c['tcs']][:12], c))
            sc_stats = {'cases': len(items), 'spans': 0, 'predicted_shorter_than_test_case': 0, 'disagree': 0, 'not_exact_model': 0}
            if items:
                inp = ("\n".join(json.dumps({"p": p_, "hs": hs_}) for p_, hs_, _ in items) + "\n").encode()
                rc, out_, err_ = runner.sh([runner.GREXV, 'match'], inp=inp)
                real = [json.loads(l) for l in out_.splitlines() if l.startswith('{')]
                inp2 = ("\n".join(",".join(map(str, p_)) + "\t" + ";".join(",".join(map(str, h)) for h in hs_) for p_, hs_, _ in items) + "\n").encode()
                rc2, out2_, err2_ = runner.sh([runner.DRIVER, '--match', os.path.join(runner.VERIF, 'build')], inp=inp2)
                mod = out2_.splitlines()
                if rc != 0 or rc2 != 0 or len(real) != len(items) or len(mod) != len(items):
                    broken.append('search correspondence could not run: %s %s' % (err_[-150:], err2_[-150:]))
                else:
                    first_bad = None
                    for (p_, hs_, c_), a, b in zip(items, real, mod):
                        if b in ('NONE', 'CI', 'BAD'):
                            sc_stats['not_exact_model'] += 1; continue
                        for h, fi, mb in zip(hs_, a['find'], b.split(';')):
                            mfirst = (mb.split('/') + ['?'])[2]
                            if mfirst == '?':
                                sc_stats['not_exact_model'] += 1; continue
                            sc_stats['spans'] += 1
                            want = None if mfirst == '-' else [int(x) for x in mfirst.split(':')]
                            if want != [0, len(h)]:
                                sc_stats['predicted_shorter_than_test_case'] += 1
                            if (fi is None) != (want is None) or (fi is not None and list(fi) != want):
                                sc_stats['disagree'] += 1
                                if first_bad is None:
                                    first_bad = {'case': c_, 'test_case': h, 'pikevm': fi, 'model_find_first': mfirst}
                    if first_bad:
                        broken.append('search correspondence: the priority model (Engine/Prio.v find_first) and the PikeVM report different spans: %s' % json.dumps(first_bad)[:400])
            res['stats']['search_correspondence'] = sc_stats
    if pid == 'C13':
        import extra
        unknown += [(c, {'out': None}, fl) for c, fl in extra.python_threshold_probe(res, seed)]
        unknown += [(c, {'out': None}, fl) for c, fl in extra.builder_order_probe(res, seed)]
    def evaluate_candidates(muts, tag):
        """implementation + model + oracles + known-finding classes on extra candidate inputs; failing ones join `unknown`"""
        for i_, m_ in enumerate(muts):
            m_['id'] = i_
        impl2 = runner.run_impl(muts)
        model2 = runner.run_model(muts, impl2) if st['driver_ok'] else {}
        nfound = 0
        for m_ in muts:
            r2 = impl2.get(m_['id'])
            if r2 is None or 'harness_panic' in r2:
                continue
            mm2 = model2.get(m_['id'])
            v2 = r2.get('verdicts', {})
            if mm2 is not None and 'no_merge' in mm2 and isinstance(v2, dict):
                v2['k1_merge'] = (mm2['no_merge'] == '0')
            for fl in fails_of(m_, r2):
                k = known_for(pid, m_, r2, fl, st)
                if k == 'K2' and mm2 is not None and r2.get('out') is not None and mm2.get('out') not in (None, '!ERR') \
                        and mm2.get('out') != runner.ser_cps(r2['out']) and not k2_on_model(mm2['out'], fl.get('t')):
                    k = None
                if k == 'K2' and mm2 is not None and mm2.get('sc_ok') == '0' and r2.get('out') is not None:
                    mo_ = model_out_admissible(m_, r2)
                    if mo_ not in (None, '!ERR') and not k2_on_model(mo_, fl.get('t')):
                        k = None
                if not k:
                    unknown.append((m_, r2, fl)); nfound += 1
            impl[(tag, m_['id'])] = r2
        return nfound
    # the correspondence broke but no generated input violates the property: search AROUND the inputs on which
    # implementation and model differ (they exercise the changed code) — add/remove/extend words, same options
    diff_cases = (diff_out + diff_cases)[:40]
    if diff_cases and not unknown:
        lrnd = random.Random(seed + 555)
        muts = []
        for c in diff_cases:
            alpha_c = sorted(set(x for t in c['tcs'] for x in t)) or [97]
            for _ in range(150 if tier == 'quick' else 600):
                W = [list(t) for t in c['tcs']]
                for _m in range(lrnd.randint(1, 3)):
                    op = lrnd.random()
                    w = list(lrnd.choice(W)) if W else []
                    if op < 0.25:
                        W.append(w + [lrnd.choice(alpha_c)])
                    elif op < 0.4 and w:
                        W.append(w[:-1])
                    elif op < 0.55 and w:
                        k_ = lrnd.randrange(len(w)); W.append(w[:k_] + [w[k_]] + w[k_:])
                    elif op < 0.7 and len(W) > 1:
                        w2 = lrnd.choice(W); W.append(w[:lrnd.randint(0, len(w))] + w2[lrnd.randint(0, len(w2)):])
                    elif op < 0.8 and W:
                        W.append(w + list(lrnd.choice(W)))
                    elif op < 0.9 and w:
                        k_ = lrnd.randrange(len(w)); W.append(w[:k_] + [lrnd.choice(alpha_c)] + w[k_ + 1:])
                    elif len(W) > 2:
                        W.pop(lrnd.randrange(len(W)))
                muts.append({'tcs': W, 'f': c['f'], 'mr': c.get('mr', 1), 'ms': c.get('ms', 1), 'alpha': 'local-search',
                             'lang': bool(spec.get('lang')), 'lang_anchor': pid == 'C08'})
        nfound = evaluate_candidates(muts, 'ls')
        res['stats']['local_search'] = {'around_cases': len(diff_cases), 'mutants': len(muts), 'failing_inputs_found': nfound}
    # native bounded-exhaustive hunt (harness `grexv hunt`): sibling-branch families and small subsets, judged in-process;
    # every hit goes through implementation + model + known-finding classes like any generated case. Runs when the tie of a
    # structure stage is broken and nothing so far violates the property, and always in the thorough tier.
    structure = bool(set(spec['stages']) & {'trie', 'min', 'expr', 'final', 'out'}) and not spec.get('runner') and spec.get('special') != 'c09'
    structure_broken = bool(set(stage_diffs) & {'trie', 'min', 'expr', 'final', 'out', 'clusters_r'})
    if structure and ((diff_cases and not unknown and structure_broken) or tier == 'thorough'):
        after_break = bool(diff_cases and not unknown and structure_broken)
        budget = 20 if tier == 'quick' else 60
        fsets = []
        # the options of the inputs on which implementation and model differ come first
        for c in diff_cases[:6]:
            fl_c = c['f'].split(',') if c['f'] else []
            if 'c' in fl_c or 'E' in fl_c or 'i' in fl_c:
                continue
            key_ = (c['f'], c.get('mr', 1), c.get('ms', 1))
            if key_ not in fsets and len(fsets) < 2:
                fsets.append(key_)
        for fl_ in ((['r'] if 'r' in spec['flags'] else []) + ([] if 'r' in spec.get('force', []) else [''])):
            if (fl_, 1, 1) not in fsets:
                fsets.append((fl_, 1, 1))
        hcfgs = []
        for (fl_, mr_, ms_) in fsets:
            fparts = fl_.split(',') if fl_ else []
            only_sound = any(x in fparts for x in ('r', 'ns', 'ne', 'i', 'd', 'w', 's', 'D', 'W', 'S'))
            hcfgs.append({'family': 'rand', 'alpha': 'abc', 'f': fl_, 'mr': mr_, 'ms': ms_, 'oracle': 'unmatched', 'budget_s': budget, 'maxlen': 3, 'max_hits': 6, 'seed': seed + 1})
            hcfgs.append({'family': 'sib', 'alpha': 'ab', 'f': fl_, 'mr': mr_, 'ms': ms_, 'oracle': 'unmatched', 'budget_s': budget, 'maxlen': 3, 'kmax': 3, 'max_hits': 6})
            hcfgs.append({'family': 'sib', 'alpha': 'abc', 'f': fl_, 'mr': mr_, 'ms': ms_, 'oracle': 'unmatched', 'budget_s': budget, 'maxlen': 3, 'kmax': 2, 'max_hits': 6})
            if not only_sound and spec.get('lang'):
                hcfgs.append({'family': 'sub', 'alpha': 'ab', 'f': fl_, 'oracle': 'lang', 'budget_s': budget, 'maxlen': 3, 'kmax': 4, 'max_hits': 6})
        hstats = []
        hmuts = []
        for hc in hcfgs:
            rc, outm, err = runner.sh([runner.GREXV, 'hunt'], inp=(json.dumps(hc) + '\n').encode(), timeout=budget * 4 + 60)
            try:
                hr = json.loads([l for l in outm.splitlines() if l.startswith('{')][-1])
            except Exception:
                hstats.append({'config': hc, 'error': (err or outm)[-300:]}); continue
            hstats.append({k: hr.get(k) for k in ('family', 'alpha', 'f', 'oracle', 'evaluated', 'exhaustive', 'elapsed_s')} | {'hits': len(hr.get('hits', []))})
            seen_h = set()
            for h in hr.get('hits', [])[:12]:
                kh = json.dumps(h['tcs'])
                if kh in seen_h:
                    continue
                seen_h.add(kh)
                hmuts.append({'tcs': h['tcs'], 'f': hc['f'], 'mr': hc.get('mr', 1), 'ms': hc.get('ms', 1), 'alpha': 'hunt-' + hc['family'],
                              'lang': bool(spec.get('lang')), 'lang_anchor': pid == 'C08'})
            if hmuts and after_break:
                break
        nh = evaluate_candidates(hmuts, 'hunt') if hmuts else 0
        res['stats']['native_hunt'] = {'after_break': after_break, 'runs': hstats, 'hits_rejudged': len(hmuts), 'failing_inputs_found': nh,
                                       'evaluated': sum(h.get('evaluated') or 0 for h in hstats)}
    res['stats'].update({'undecided_lang': undecided, 'engine_inconsistencies': incons, 'known_class_failures': known_counts})
    # distribution
    keys = set(); nontriv = set(); flagc = {}; alph = {}
    for c in allc:
        k = case_key(c); keys.add(k)
        if nontrivial(c): nontriv.add(k)
        for f in flags_of(c): flagc[f] = flagc.get(f, 0) + 1
        alph[c.get('alpha', 'corpus')] = alph.get(c.get('alpha', 'corpus'), 0) + 1
    sc = {}
    for c in allc:
        r = impl.get(c['id'])
        if r and 'trace' in r:
            s = runner.selfcheck_of(c, r['trace']) if ('ns' in flags_of(c) and 'ne' in flags_of(c)) else 'n/a'
            sc[s] = sc.get(s, 0) + 1
    res['stats'].update({'distinct': len(keys), 'distinct_nontrivial': len(nontriv), 'flags': flagc, 'alphabets': alph, 'selfcheck': sc,
                         'sizes': {'max_tcs': max(len(c['tcs']) for c in allc), 'max_len': max([len(t) for c in allc for t in c['tcs']] + [0])}})
    for c in allc[ncorp:ncorp + 3] + allc[:2]:
        r = impl.get(c['id']) or {}
        res['samples'].append({'test_cases': [''.join(map(chr, t)) for t in c['tcs']], 'flags': c['f'], 'mr': c.get('mr', 1), 'ms': c.get('ms', 1),
                               'output': out_str(r) if r.get('out') is not None else None})
    # violations: dedupe by failure kind, shrink the first of each kind
    seen_kinds = set()
    for c, r, fl in unknown:
        if fl['kind'] in seen_kinds or len(res['violations']) >= 5:
            continue
        seen_kinds.add(fl['kind'])
        kind = fl['kind']
        def same_kind(cc, rr, kind=kind):
            return [x for x in fails_of(cc, rr) if x['kind'] == kind and not known_for(pid, cc, rr, x, st)]
        if kind in ('cli-anchor', 'py-threshold'):
            res['violations'].append({'case': {k: v for k, v in c.items() if k in ('tcs', 'f', 'mr', 'ms', 'args')}, 'original_case': {k: v for k, v in c.items() if k in CASE_KEYS},
                                      'failure': fl, 'output': None})
            continue
        small = shrink(pid, c, spec, same_kind)
        small = {k: v for k, v in small.items() if k in CASE_KEYS}
        sc_ = dict(small); sc_['id'] = 0; sc_['lang'] = bool(spec.get('lang'))
        sr = runner.run_impl([sc_], threads=1).get(0, {})
        sf = same_kind(sc_, sr)
        if sf:
            fl_small, r_small = sf[0], sr
        else:
            small = {k: v for k, v in c.items() if k in CASE_KEYS}; fl_small, r_small = fl, r
        res['violations'].append({'case': small, 'original_case': {k: v for k, v in c.items() if k in CASE_KEYS}, 'failure': fl_small,
                                  'output': out_str(r_small) if r_small.get('out') is not None else None})
    res['unknown_failures'] = len(unknown)
    # known findings: replay the witnesses
    for kf in KNOWN['known']:
        if pid not in kf['properties']:
            continue
        # a finding may show differently under different properties: an optional per-property witness
        bp = (kf.get('by_property') or {}).get(pid) or kf
        c = dict(bp['witness']); c['id'] = 0; c['lang'] = True; c['lang_anchor'] = True
        r = runner.run_impl([c], threads=1).get(0, {})
        fs = []
        for f in ORACLES_ALL:
            fs += f(c, r)
        still = any(classify(c, r, f, st) == kf['id'] for f in fs)
        res['known'][kf['id']] = {'still_fails': still, 'what': bp['what'], 'class_failures_in_run': known_counts.get(kf['id'], 0)}
    return res

ORACLES_ALL = [f_panic, f_compile, f_unmatched, f_lang, f_find, f_lang_anchor]

def crashed(pid, tier, seed, e):
    return {'pid': pid, 'tier': tier, 'seed': seed, 'broken': ['check crashed: %r' % (e,)], 'violations': [], 'known': {}, 'theorems': {}, 'names': [],
            'st': {}, 'samples': [], 'stats': {}}

TRUSTED = [
    "Coq 8.16.1 kernel incl. vm_compute (no native_compute); full .vo builds",
    "axioms: none (Print Assumptions of every property theorem is checked to be 'Closed under the global context')",
    "translator translator/rs2coq.py (tables, literal lists, colour codes, messages, range expression read from the Rust source)",
    "dumped tables gen/OracleTables.v measured by `grexv dump` from regex-syntax, std and unic-ucd-category as linked",
    "correspondence check: cfg(grex_verif) hooks, harness/src/bin/grexv.rs, extraction (ExtrOcamlBasic only, no Extract Constant) + driver/driver.ml; extraction cross-checked on every run against vm_compute of the same definitions inside Coq on a fixed sample (lib/kernelcheck.py)",
    "external code modelled, not verified: regex crate (judge: its PikeVM and dense DFA), unicode-segmentation and str::to_lowercase (per-case oracle data), petgraph iteration order (reproduced, validated by every stage comparison)",
]

def finish(pid, res):
    spec = PROPS.get(pid, {})
    tier, seed = res['tier'], res['seed']
    lines = []
    exit_code = 0
    nrep = 0
    for v in res['violations']:
        path = write_replay(pid, nrep, {'property': pid, 'kind': 'failing-input', 'case': v['case'], 'original_case': v['original_case'],
                                        'failure': v['failure'], 'output': v['output'],
                                        'test_cases_text': [''.join(map(chr, t)) for t in v['case']['tcs']],
                                        'broken_obligations': res['broken'][:5]})
        nrep += 1
        lines.append('VIOLATION property=%s replay=%s' % (pid, path))
        exit_code = 1
    if res['broken'] and not res['violations']:
        path = write_replay(pid, nrep, {'property': pid, 'kind': 'no-longer-shown', 'broken': res['broken'][:20], 'first_correspondence_diff': res.get('first_diff'),
                                        'note': 'no failing input was found by the search on this run'})
        lines.append('VIOLATION property=%s replay=%s no-failing-input-found' % (pid, path))
        exit_code = 1
    for kid, k in res['known'].items():
        if k['still_fails']:
            lines.append('KNOWN-FINDING: property=%s %s %s' % (pid, kid, k['what']))
    thm = res.get('theorems', {})
    names = res.get('names', [])
    discharged = sum(1 for n in names if thm.get(n, {}).get('ok')) if not any(b.startswith('audit') or b.startswith('translator') for b in res['broken']) else 0
    stats = res.get('stats', {})
    cov = {
        'obligations': len(names), 'discharged': discharged,
        'checker_cmd': 'make -C coq (coqc 8.16.1, full .vo) + coqc build/audit/Audit_%s.v (Check + Print Assumptions)' % pid,
        'trusted_base': TRUSTED,
        'evaluations': stats.get('cases', 0), 'distinct_nontrivial': stats.get('distinct_nontrivial', 0),
        'rule': 'cases = corpus + generator (lib/cases.py, structured families x flag lattice); distinct by (set of test cases, flags, thresholds); non-trivial = at least two distinct test cases or at least one option set',
        'samples': res.get('samples', [])[:5] + [{'theorem': n, 'statement': thm[n]['statement'][:400], 'assumptions': thm[n]['assumptions']} for n in names[:6]],
        'theorems': {n: thm[n] for n in names},
        'correspondence': {'cases_compared': stats.get('compared', 0), 'stages': spec.get('stages'), 'stage_disagreements': stats.get('stage_diffs', {}),
                           'local_search_after_break': stats.get('local_search'), 'native_hunt': stats.get('native_hunt'),
                           'search_spans_priority_model_vs_pikevm': stats.get('search_correspondence'),
                           'selfcheck_outcome_computed_by_model_vs_implementation': stats.get('selfcheck_tie')},
        'oracle': {'unknown_failures': res.get('unknown_failures', 0), 'known_class_failures': stats.get('known_class_failures', {}),
                   'undecided_language_queries': stats.get('undecided_lang', 0), 'engine_inconsistencies': stats.get('engine_inconsistencies', 0)},
        'distribution': {k: stats.get(k) for k in ('flags', 'alphabets', 'selfcheck', 'sizes', 'corpus', 'distinct')},
        'broken': res['broken'][:20],
        'known_findings': res['known'],
        'timing': {k: stats.get(k) for k in ('t_impl', 't_model')},
        'engine_model_validation': stats.get('engine_model'),
        'extraction_cross_check': stats.get('kernel_cross_check'),
        'coqchk': res.get('coqchk'),
    }
    ev = {'property_id': pid, 'tier': tier if tier in ('quick', 'thorough') else 'quick', 'seed': seed, 'level': 'proof', 'coverage': cov,
          'assumptions': ['lower_idem: to_lowercase is idempotent on every lower-cased test case (checked per case by the harness)',
                          'segmentation oracle: concat(seg s) = s (the model keeps every code point even if violated)',
                          'self-check outcomes of the optimised regex engine are inputs of the model (universally quantified in theorems)'],
          'wall_s': res.get('wall_s', 0.0), 'violations': len(res['violations']) + (1 if res['broken'] and not res['violations'] else 0)}
    os.makedirs(EVID, exist_ok=True)
    json.dump(ev, open(os.path.join(EVID, '%s.json' % pid), 'w'), indent=1)
    for l in lines:
        print(l)
    print('%s %s: %d cases, %d/%d theorems, broken=%d, violations=%d, known=%s, %.1fs' % (
        pid, tier, stats.get('cases', 0), discharged, len(names), len(res['broken']), len(res['violations']),
        {k: v['class_failures_in_run'] for k, v in res['known'].items()}, res.get('wall_s', 0)))
    if res['broken']:
        for b in res['broken'][:8]:
            print('  broken:', b[:400])
    return exit_code

def replay(pid, path):
    obj = json.load(open(path if os.path.isabs(path) else os.path.join(VERIF, path)))
    st = coqbuild.prepare()
    if 'case' not in obj:
        print(json.dumps(obj, indent=1)[:3000]); return 0
    c = dict(obj['case']); c['id'] = 0; c['lang'] = True
    impl = runner.run_impl([c], threads=1)
    r = impl.get(0, {})
    print('implementation output:', repr(out_str(r)) if r.get('out') is not None else 'PANIC ' + str(r.get('panic')))
    print('verdicts:', json.dumps(r.get('verdicts', {}))[:1500])
    if st['driver_ok']:
        m = runner.run_model([c], impl).get(0, {})
        print('model output:', m.get('out'))
        e2e, loc = runner.compare(c, r, m)
        print('correspondence: end-to-end diffs %s, stage-local diffs %s' % ([d[0] for d in e2e], [d[0] for d in loc]))
    fs = []
    for f in ORACLES.get(pid, ORACLES_ALL):
        fs += f(c, r)
    for f in fs:
        print('oracle failure:', f['kind'], f['detail'], 'known-class=%s' % known_for(pid, c, r, f, st))
    return 1 if any(not known_for(pid, c, r, f, st) for f in fs) else 0
