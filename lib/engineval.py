"""Validation of the Coq model of the regex crate's parser (Engine/Parse.v) against
regex_syntax::ast on (i) patterns the implementation produced, (ii) mutants of them,
(iii) a grammar-generated stream."""
import os, json, random
import runner, cases as casegen
from runner import BUILD

def mutants(p, rnd, k=3):
    out = []
    s = list(p)
    for _ in range(k):
        if not s:
            break
        t = list(s)
        op = rnd.random()
        i = rnd.randrange(len(t))
        if op < 0.3:
            del t[i]
        elif op < 0.6:
            t.insert(i, rnd.choice(list('\\{}[]()|?*+-^$ #\n,0123&~.') + [' ', 'x']))
        elif op < 0.8 and len(t) > 1:
            j = rnd.randrange(len(t)); t[i], t[j] = t[j], t[i]
        else:
            t[i] = rnd.choice(list('\\{}[]()|?*+-^$ #ab,12'))
        out.append(''.join(t))
    return out

def grammar(rnd, depth=0):
    r = rnd.random()
    atoms = ['a', 'b', '\\d', '\\W', '\\.', '\\\\', '\\u{e9}', '\\u00a0', '[ab]', '[a-c\\]x]', '\\n', '\\ ', '\\#', ' ', '#c\n', '^', '$', '\\-', '[\\^-b]', '}', ']', ',', '-', '&', '~', '[&a~]']
    if depth > 2 or r < 0.45:
        return rnd.choice(atoms)
    if r < 0.6:
        return grammar(rnd, depth + 1) + grammar(rnd, depth + 1)
    if r < 0.7:
        return grammar(rnd, depth + 1) + '|' + grammar(rnd, depth + 1)
    if r < 0.8:
        return rnd.choice(['(?:', '(']) + grammar(rnd, depth + 1) + ')'
    return grammar(rnd, depth + 1) + rnd.choice(['?', '*', '+', '{2}', '{1,3}', '{2,}', '{ 2 }', '??', '{3,1}', '{2} ?', '{1,3}\n  ?', '* ?', '{2}#c\n?'])

def validate(patterns_with_kind):
    pats = [p for p, k in patterns_with_kind]
    inp = ("\n".join(json.dumps([ord(c) for c in p]) for p in pats) + "\n").encode()
    rc, out, err = runner.sh([runner.GREXV, 'ast'], inp=inp)
    real = [l for l in out.splitlines() if not l.startswith('WARNING')]
    inp2 = ("\n".join(",".join(str(ord(c)) for c in p) for p in pats) + "\n").encode()
    rc2, out2, err2 = runner.sh([runner.DRIVER, '--ast', os.path.join(BUILD, 'std_ws.txt')], inp=inp2)
    model = out2.splitlines()
    if rc != 0 or rc2 != 0 or len(real) != len(pats) or len(model) != len(pats):
        return {'error': 'validation could not run: %s %s (%d/%d/%d)' % (err[-300:], err2[-300:], len(pats), len(real), len(model))}
    res = {'total': len(pats), 'agree': 0, 'model_rejects_only': 0, 'disagree': [], 'by_kind': {}}
    for (p, k), a, b in zip(patterns_with_kind, real, model):
        kk = res['by_kind'].setdefault(k, {'n': 0, 'agree': 0, 'model_rejects_only': 0, 'disagree': 0})
        kk['n'] += 1
        if a == b:
            res['agree'] += 1; kk['agree'] += 1
        elif b == 'NONE' and k != 'output':
            res['model_rejects_only'] += 1; kk['model_rejects_only'] += 1
        else:
            kk['disagree'] += 1
            res['disagree'].append({'pattern': p, 'kind': k, 'regex_syntax': a[:300], 'model': b[:300]})
    return res

def run(seed, n):
    rnd = random.Random(seed)
    cs = casegen.generate(seed + 5, n, allow_flags=[f for f in casegen.FLAGS if f not in ('c', 'E')])
    for i, c in enumerate(cs):
        c['id'] = i
    impl = runner.run_impl(cs)
    pats = []
    for c in cs:
        r = impl.get(c['id'])
        if r and r.get('out') is not None:
            p = ''.join(map(chr, r['out']))
            pats.append((p, 'output'))
            for m in mutants(p, rnd, 2):
                pats.append((m, 'mutant'))
    # fixed corpus of patterns on which the model once disagreed (runs on every validation)
    cp = os.path.join(os.path.dirname(os.path.abspath(__file__)), '..', 'corpus', 'engine', 'patterns.jsonl')
    if os.path.exists(cp):
        for l in open(cp):
            l = l.strip()
            if l:
                pats.append((json.loads(l)['pattern'], 'corpus'))
    for _ in range(n):
        g = grammar(rnd)
        pats.append((rnd.choice(['', '', '(?x)', '(?i)', '(?ix)\n']) + g, 'grammar'))
    return validate(pats)

def validate_semantics(seed, n):
    """Engine/Sem.v (through the proved-equivalent executable matcher Engine/Exec.v) against the real
    regex crate (PikeVM): whole-haystack matching and leftmost search on the implementation's outputs,
    haystacks = test cases, their prefixes/suffixes, one-character edits, random strings."""
    rnd = random.Random(seed + 77)
    cs = casegen.generate(seed + 6, n, allow_flags=[f for f in casegen.FLAGS if f not in ('c', 'E')])
    for i, c in enumerate(cs):
        c['id'] = i
    impl = runner.run_impl(cs)
    items = []
    for c in cs:
        r = impl.get(c['id'])
        if not r or r.get('out') is None:
            continue
        hs = []
        for t in c['tcs'][:4]:
            hs.append(t)
            if t:
                hs.append(t[:rnd.randrange(len(t))]); hs.append(t[rnd.randrange(len(t)):])
                u = list(t); u[rnd.randrange(len(u))] = rnd.choice([97, 98, 49, 32, 0xe9]); hs.append(u)
                hs.append([ord(ch) for ch in ''.join(map(chr, t)).swapcase()])
                hs.append(t + t[:1]); hs.append([120] + t + [121])
        hs.append([])
        items.append((r['out'], hs[:16]))
    inp = ("\n".join(json.dumps({"p": p, "hs": hs}) for p, hs in items) + "\n").encode()
    rc, out, err = runner.sh([runner.GREXV, 'match'], inp=inp)
    real = [json.loads(l) for l in out.splitlines() if l.startswith('{')]
    inp2 = ("\n".join(",".join(map(str, p)) + "\t" + ";".join(",".join(map(str, h)) for h in hs) for p, hs in items) + "\n").encode()
    rc2, out2, err2 = runner.sh([runner.DRIVER, '--match', BUILD], inp=inp2)
    model = out2.splitlines()
    res = {'patterns': len(items), 'haystacks': 0, 'full_disagree': [], 'find_disagree': [], 'first_disagree': [], 'skipped': 0}
    if rc != 0 or rc2 != 0 or len(real) != len(items) or len(model) != len(items):
        return {'error': 'semantic validation could not run: %s %s (%d/%d/%d)' % (err[-200:], err2[-200:], len(items), len(real), len(model))}
    for (p, hs), a, b in zip(items, real, model):
        if b in ('NONE', 'CI', 'BAD'):
            res['skipped'] += 1; continue
        parts = b.split(';')
        for hi_, (h, fa, fi, mb) in enumerate(zip(hs, a['full'], a['find'], parts)):
            res['haystacks'] += 1
            mfull, mfind, mfirst, mcount = (mb.split('/') + ['?', '?'])[:4]
            # find_iter(h).count() (Engine/Prio.v find_iter_count) against the PikeVM's
            if mcount != '?' and a.get('vm_count') and a['vm_count'][hi_] is not None:
                res['count_compared'] = res.get('count_compared', 0) + 1
                if int(mcount) != a['vm_count'][hi_]:
                    res['first_disagree'].append({'pattern': ''.join(map(chr, p)), 'haystack': h, 'pikevm_find_iter_count': a['vm_count'][hi_], 'model_count': mcount})
            # leftmost-FIRST (Engine/Prio.v, Proofs/PrioSound.v): the model predicts the exact span `find` reports
            if mfirst != '?':
                res['first_compared'] = res.get('first_compared', 0) + 1
                want = None if mfirst == '-' else [int(x) for x in mfirst.split(':')]
                if (fi is None) != (want is None) or (fi is not None and list(fi) != want):
                    res['first_disagree'].append({'pattern': ''.join(map(chr, p)), 'haystack': h, 'regex': fi, 'model_first': mfirst})
            if fa is not None and (mfull == '1') != fa:
                res['full_disagree'].append({'pattern': ''.join(map(chr, p)), 'haystack': h, 'regex': fa, 'model': mfull})
            if mfind == '-':
                if fi is not None:
                    res['find_disagree'].append({'pattern': ''.join(map(chr, p)), 'haystack': h, 'regex': fi, 'model': None})
            else:
                i, js = mfind.split(':')
                js = [int(x) for x in js.split(',') if x != '']
                if fi is None or fi[0] != int(i) or fi[1] not in js:
                    res['find_disagree'].append({'pattern': ''.join(map(chr, p)), 'haystack': h, 'regex': fi, 'model': mfind})
    return res

if __name__ == '__main__':
    import sys
    r = run(int(sys.argv[1]) if len(sys.argv) > 1 else 1, int(sys.argv[2]) if len(sys.argv) > 2 else 2000)
    d = r.pop('disagree', [])
    print(json.dumps(r))
    for x in d[:25]:
        print(json.dumps(x, ensure_ascii=True))
    print(len(d), 'disagreements')
    sres = validate_semantics(int(sys.argv[1]) if len(sys.argv) > 1 else 1, int(sys.argv[2]) if len(sys.argv) > 2 else 2000)
    fd = sres.pop('full_disagree', []); nd = sres.pop('find_disagree', []) + sres.pop('first_disagree', [])
    print(json.dumps(sres), len(fd), 'full-match disagreements', len(nd), 'find disagreements')
    for x in (fd + nd)[:10]:
        print(json.dumps(x))
