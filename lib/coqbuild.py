"""Build steps shared by every check: harness, translator, dumps, Coq make, audit, extraction."""
import os, sys, re, json, glob, subprocess, time, hashlib, shutil
import runner, oracle_gen
from runner import VERIF, BUILD, COQ, sh

FORBIDDEN = re.compile(r'\b(Admitted|admit|Axiom|Axioms|Parameter|Parameters|Conjecture|Hypothesis|Variable)\b|Unset Guard|bypass_check|type-in-type|impredicative-set|Admit Obligations')

def coq_sources():
    fs = []
    for sub in ['Base', 'Model', 'Engine', 'Proofs', 'Props']:
        fs += sorted(glob.glob(os.path.join(COQ, 'theories', sub, '*.v')))
    fs += sorted(glob.glob(os.path.join(COQ, 'gen', '*.v')))
    return [os.path.relpath(f, COQ) for f in fs]

def audit_sources():
    """grep for forbidden vernacular. `Variable`/`Hypothesis` are allowed inside Sections only:
    we check that each occurrence is between a `Section` and its `End`."""
    bad = []
    for rel in coq_sources():
        if rel.startswith('gen/'):
            txt = open(os.path.join(COQ, rel), encoding='utf-8').read()
            if re.search(r'\b(Admitted|admit|Axiom|Parameter|Conjecture)\b', txt):
                bad.append((rel, 'forbidden vernacular in generated file'))
            continue
        depth = 0
        in_comment = 0
        for ln, line in enumerate(open(os.path.join(COQ, rel), encoding='utf-8'), 1):
            # strip comments (nesting-aware, line based approximation good enough for keywords)
            out = ''
            i = 0
            while i < len(line):
                if line.startswith('(*', i):
                    in_comment += 1; i += 2; continue
                if line.startswith('*)', i) and in_comment:
                    in_comment -= 1; i += 2; continue
                if not in_comment:
                    out += line[i]
                i += 1
            if re.match(r'\s*Section\b', out):
                depth += 1
            if re.match(r'\s*End\b', out) and depth > 0:
                depth -= 1
            for m in FORBIDDEN.finditer(out):
                w = m.group(0)
                if w in ('Variable', 'Hypothesis') and depth > 0:
                    continue
                if w in ('Variable', 'Hypothesis', 'Parameter', 'Parameters') and not re.match(r'\s*(Variable|Variables|Hypothesis|Hypotheses|Parameter|Parameters)\b', out):
                    continue   # the word inside an identifier or text, not a command
                bad.append((rel, '%d: %s' % (ln, out.strip()[:80])))
    return bad

def run_translator():
    import rs2coq
    status = {}
    gen = os.path.join(COQ, 'gen')
    files = {'GrexTables.v': rs2coq.gen_tables, 'SrcConsts.v': rs2coq.gen_consts}
    try:
        import rs2coq_wrappers
        files.update(rs2coq_wrappers.WRAPPER_FILES)
    except ImportError:
        pass
    for name, fn in files.items():
        try:
            text = fn()
            status[name] = 'changed' if rs2coq.write_if_changed(os.path.join(gen, name), text) else 'unchanged'
        except rs2coq.TranslateError as e:
            status[name] = 'ERROR: %s' % e
            # keep the stale generated file out of the way so dependants fail visibly
            try:
                os.remove(os.path.join(gen, name))
            except FileNotFoundError:
                pass
    # a regenerated file invalidates every compiled generated file (they import each other); make's
    # mtime logic alone is not reliable after a file was removed and re-created
    if any(v != 'unchanged' for v in status.values()):
        for vo in glob.glob(os.path.join(gen, '*.vo')):
            if os.path.basename(vo) != 'OracleTables.vo':
                os.remove(vo)
    return status

def coq_make():
    srcs = coq_sources()
    key = hashlib.sha256("\n".join(srcs).encode()).hexdigest()
    keyf = os.path.join(COQ, '.filelist.key')
    if not os.path.exists(os.path.join(COQ, 'Makefile')) or not os.path.exists(keyf) or open(keyf).read() != key:
        rc, out, err = sh(['coq_makefile', '-f', '_CoqProject', '-o', 'Makefile'] + srcs, cwd=COQ)
        open(keyf, 'w').write(key)
    rc, out, err = sh(['timeout', '3000', 'make', '-k', '-j16'], cwd=COQ, timeout=3100)
    log = out + err
    # failed targets, and everything that depends on them, are not built (a stale .vo may remain)
    failed = set(re.findall(r'\*\*\* \[Makefile[^\]]*: ([^\]]+\.vo)\] Error', log))
    failed |= set(re.findall(r"No rule to make target '[^']+', needed by '([^']+\.vo)'", log))
    deps = {}
    try:
        for line in open(os.path.join(COQ, '.Makefile.d'), encoding='utf-8'):
            if ':' not in line:
                continue
            lhs, rhs = line.split(':', 1)
            tg = [t for t in lhs.split() if t.endswith('.vo')]
            ds = [t for t in rhs.split() if t.endswith('.vo')]
            for t in tg:
                deps[t] = ds
    except FileNotFoundError:
        pass
    changed = True
    while changed:
        changed = False
        for t, ds in deps.items():
            if t not in failed and any(d in failed for d in ds):
                failed.add(t); changed = True
    built = {}
    for rel in srcs:
        vo_rel = rel[:-2] + '.vo'
        vo = os.path.join(COQ, vo_rel)
        v = os.path.join(COQ, rel)
        ok = os.path.exists(vo) and os.path.getmtime(vo) >= os.path.getmtime(v) and vo_rel not in failed
        if vo_rel in failed and os.path.exists(vo):
            os.remove(vo)
        built[rel] = ok
    return rc == 0, built, log

def build_driver():
    """extract the model and compile the OCaml driver when the model .vo files are newer"""
    ex = os.path.join(BUILD, 'extracted')
    os.makedirs(ex, exist_ok=True)
    drv = os.path.join(ex, 'driver')
    deps = glob.glob(os.path.join(COQ, 'theories', 'Model', '*.vo')) + glob.glob(os.path.join(COQ, 'theories', 'Base', '*.vo')) + glob.glob(os.path.join(COQ, 'theories', 'Engine', '*.vo')) + \
           [os.path.join(COQ, 'theories', 'Extract.v'), os.path.join(COQ, 'theories', 'ExtractPy.v'), os.path.join(VERIF, 'driver', 'driver.ml'), os.path.join(VERIF, 'driver', 'pydriver.ml')]
    if os.path.exists(drv) and all(os.path.getmtime(d) <= os.path.getmtime(drv) for d in deps):
        return True, ''
    for f in ['model.ml', 'model.mli', 'driver']:
        try: os.remove(os.path.join(ex, f))
        except FileNotFoundError: pass
    rc, out, err = sh(['timeout', '600', 'coqc', '-Q', os.path.join(COQ, 'theories'), 'Grex', '-Q', os.path.join(COQ, 'gen'), 'GrexGen',
                       '-o', os.path.join(ex, 'Extract.vo'), os.path.join(COQ, 'theories', 'Extract.v')], cwd=ex)
    if rc != 0 or not os.path.exists(os.path.join(ex, 'model.ml')):
        return False, 'extraction failed: ' + (out + err)[-2000:]
    shutil.copyfile(os.path.join(VERIF, 'driver', 'driver.ml'), os.path.join(ex, 'driver.ml'))
    rc, out, err = sh(['timeout', '600', 'ocamlfind', 'ocamlopt', '-w', '-a', '-o', 'driver', 'model.mli', 'model.ml', 'driver.ml'], cwd=ex)
    if rc != 0:
        return False, 'driver compile failed: ' + (out + err)[-2000:]
    build_pydriver()
    return True, ''

def build_pydriver():
    """the Python-rewrite model is extracted separately (it depends on gen/SrcPython.v)"""
    ex = os.path.join(BUILD, 'extracted')
    for f in ['pymodel.ml', 'pymodel.mli', 'pydriver']:
        try: os.remove(os.path.join(ex, f))
        except FileNotFoundError: pass
    rc, out, err = sh(['timeout', '600', 'coqc', '-Q', os.path.join(COQ, 'theories'), 'Grex', '-Q', os.path.join(COQ, 'gen'), 'GrexGen',
                       '-o', os.path.join(ex, 'ExtractPy.vo'), os.path.join(COQ, 'theories', 'ExtractPy.v')], cwd=ex)
    if rc != 0 or not os.path.exists(os.path.join(ex, 'pymodel.ml')):
        return False
    shutil.copyfile(os.path.join(VERIF, 'driver', 'pydriver.ml'), os.path.join(ex, 'pydriver.ml'))
    rc, out, err = sh(['timeout', '600', 'ocamlfind', 'ocamlopt', '-w', '-a', '-o', 'pydriver', 'pymodel.mli', 'pymodel.ml', 'pydriver.ml'], cwd=ex)
    return rc == 0

_prepared = None

def prepare(full=False):
    """returns a status dict; never raises for a broken tie — callers decide what it means"""
    global _prepared
    if _prepared is not None:
        return _prepared
    st = {'harness_ok': False, 'translator': {}, 'coq_ok': False, 'coq_built': {}, 'driver_ok': False, 'audit': [], 'errors': []}
    t0 = time.time()
    try:
        runner.build_harness()
        st['harness_ok'] = True
    except runner.BuildError as e:
        st['errors'].append('%s: %s' % (e.what, e.log[-1500:]))
    st['t_harness'] = round(time.time() - t0, 1)
    st['translator'] = run_translator()
    # every syntactic panic site of the library code is mapped to a failure branch of the model (C07)
    try:
        rc, out, err = sh([sys.executable, os.path.join(VERIF, 'translator', 'panic_sites.py')])
        st['panic_sites'] = json.loads(out) if rc == 0 else {'error': err[-300:]}
    except Exception as e:
        st['panic_sites'] = {'error': repr(e)}
    if st['harness_ok']:
        try:
            d = runner.dump_tables()
            oracle_gen.generate(d)
            st['dump'] = d
        except runner.BuildError as e:
            st['errors'].append('%s: %s' % (e.what, e.log[-1500:]))
    st['t_gen'] = round(time.time() - t0, 1)
    ok, built, log = coq_make()
    st['coq_ok'] = ok
    st['coq_built'] = built
    st['make_log'] = log
    st['t_coq'] = round(time.time() - t0, 1)
    st['audit'] = audit_sources()
    core = ['theories/Base/Str.v', 'theories/Model/Config.v', 'theories/Model/Cluster.v', 'theories/Model/Dfa.v', 'theories/Model/Expr.v',
            'theories/Model/Print.v', 'theories/Model/Pipeline.v', 'theories/Engine/Syntax.v', 'theories/Engine/Parse.v', 'theories/Engine/Exec.v',
            'theories/Engine/ExecCi.v', 'theories/Engine/Prio.v', 'theories/Engine/PrioCi.v', 'theories/Model/SelfCheck.v', 'gen/GrexTables.v', 'gen/SrcConsts.v', 'gen/OracleTables.v']
    model_ok = all(built.get(k, False) for k in core)
    if model_ok:
        ok, msg = build_driver()
        st['driver_ok'] = ok
        if not ok:
            st['errors'].append(msg)
    else:
        st['errors'].append('model files do not compile: ' + ', '.join(k for k in core if not built.get(k, False)))
    st['t_total'] = round(time.time() - t0, 1)
    _prepared = st
    return st

def audit_theorems(propfile, theorems):
    """coqc a small script printing the statement and the assumptions of each theorem"""
    ex = os.path.join(BUILD, 'audit')
    os.makedirs(ex, exist_ok=True)
    mod = os.path.basename(propfile)[:-2]
    script = 'From Grex Require Import Props.%s.\n' % mod
    for t in theorems:
        script += 'Check %s.\nPrint Assumptions %s.\n' % (t, t)
    path = os.path.join(ex, 'Audit_%s.v' % mod)
    open(path, 'w').write(script)
    rc, out, err = sh(['timeout', '600', 'coqc', '-Q', os.path.join(COQ, 'theories'), 'Grex', '-Q', os.path.join(COQ, 'gen'), 'GrexGen', path], cwd=ex)
    res = {}
    if rc != 0:
        return {t: {'ok': False, 'statement': '', 'assumptions': 'audit failed: ' + (out + err)[-500:]} for t in theorems}
    # split output per theorem: each `Check` prints "name\n     : stmt", then the assumptions
    chunks = re.split(r'\n(?=\S+\n\s+: )', '\n' + out)
    text = out
    for t in theorems:
        m = re.search(r'(?:^|\n)%s\s*\n?\s*:\s(.*?)(?=\n(?:Closed under the global context|Axioms:))' % re.escape(t), text, re.S)
        stmt = re.sub(r'\s+', ' ', m.group(1)).strip() if m else ''
        after = text[m.end():] if m else ''
        if after.lstrip().startswith('Closed under the global context'):
            res[t] = {'ok': True, 'statement': stmt, 'assumptions': 'Closed under the global context'}
        else:
            ax = after.split('\n\n')[0] if after else 'unknown'
            # next theorem's Check starts after a blank-less boundary; cut at the next known name
            res[t] = {'ok': False, 'statement': stmt, 'assumptions': ax.strip()[:600]}
        text = after
    return res


def coqchk(propfile):
    """independent re-check of the compiled property file and everything it depends on (thorough tier)"""
    mod = 'Grex.Props.' + os.path.basename(propfile)[:-2]
    rc, out, err = sh(['timeout', '3400', 'coqchk', '-o', '-silent', '-Q', 'theories', 'Grex', '-Q', 'gen', 'GrexGen', mod], cwd=COQ, timeout=3500)
    txt = out + err
    m = re.search(r'\* Axioms:(.*?)\n\s*\n\* Constants', txt, re.S)
    axioms = m.group(1).strip() if m else 'unknown'
    ok = rc == 0 and axioms == '<none>' and 'relying on type-in-type: <none>' in txt and 'positivity is assumed: <none>' in txt and 'unsafe (co)fixpoints: <none>' in txt
    return ok, axioms, txt[-1500:]
