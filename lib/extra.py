"""Runners for the wrapper-layer properties: C10 (determinism), C12 (CLI), C14 (Python), C17 (wasm)."""
import os, json, random, subprocess, shutil, tempfile, time, sys
import runner, cases as casegen
from runner import VERIF, BUILD, REPO, sh

OFF = dict(os.environ, CARGO_NET_OFFLINE='true')
CLI = os.path.join(BUILD, 'cli-target', 'release', 'grex')
PYDIR = os.path.join(BUILD, 'py')

def build_cli():
    env = dict(OFF, CARGO_TARGET_DIR=os.path.join(BUILD, 'cli-target'))
    rc, out, err = sh(['cargo', 'build', '--offline', '--release', '--quiet', '--bin', 'grex', '--manifest-path', os.path.join(REPO, 'Cargo.toml')], env=env, timeout=1800)
    if rc != 0 or not os.path.exists(CLI):
        raise runner.BuildError('CLI build', err[-3000:])

def build_py():
    env = dict(OFF, CARGO_TARGET_DIR=os.path.join(BUILD, 'py-target'))
    rc, out, err = sh(['cargo', 'build', '--offline', '--release', '--quiet', '--lib', '--features', 'python', '--manifest-path', os.path.join(REPO, 'Cargo.toml')], env=env, timeout=1800)
    so = os.path.join(BUILD, 'py-target', 'release', 'libgrex.so')
    if rc != 0 or not os.path.exists(so):
        raise runner.BuildError('Python extension build (--features python)', err[-3000:])
    os.makedirs(PYDIR, exist_ok=True)
    dst = os.path.join(PYDIR, 'grex.so')
    if not os.path.exists(dst) or os.path.getmtime(dst) < os.path.getmtime(so):
        shutil.copyfile(so, dst)

def flags_of(c):
    return [f for f in c['f'].split(',') if f]

KEY2SETTER = {'d': 'with_conversion_of_digits', 'D': 'with_conversion_of_non_digits', 's': 'with_conversion_of_whitespace',
              'S': 'with_conversion_of_non_whitespace', 'w': 'with_conversion_of_words', 'W': 'with_conversion_of_non_words',
              'r': 'with_conversion_of_repetitions', 'i': 'with_case_insensitive_matching', 'g': 'with_capturing_groups',
              'e': 'with_escaping_of_non_ascii_chars', 'x': 'with_verbose_mode', 'ns': 'without_start_anchor', 'ne': 'without_end_anchor',
              'c': 'with_syntax_highlighting', 'mr': 'with_minimum_repetitions', 'ms': 'with_minimum_substring_length', 'na': 'without_anchors'}
STATE_KEYS = [('mr', 'min_rep'), ('ms', 'min_len'), ('d', 'f_digit'), ('D', 'f_non_digit'), ('s', 'f_space'), ('S', 'f_non_space'), ('w', 'f_word'),
              ('W', 'f_non_word'), ('rep', 'f_rep'), ('ci', 'f_ci'), ('cap', 'f_cap'), ('esc', 'f_esc'), ('sur', 'f_sur'), ('verbose', 'f_verbose'),
              ('nostart', 'f_no_start'), ('noend', 'f_no_end'), ('colour', 'f_colour')]

def validate_setter_translation(res):
    """the translator's reading of builder.rs (which generates gen/SrcBuilder.v) against the effect of
    every setter as the COMPILED code shows it (grexv setters)"""
    import rs2coq_wrappers, rs2coq
    try:
        setters = {s['name']: s for s in rs2coq_wrappers.parse_builder()}
    except Exception as e:
        res['broken'].append('translator cannot read builder.rs: %s' % e); return
    rc, out, err = sh([runner.GREXV, 'setters'])
    if rc != 0:
        res['broken'].append('grexv setters failed: ' + err[-300:]); return
    dump = json.loads([l for l in out.splitlines() if l.startswith('{')][0])
    def parse_state(txt):
        d = {}
        for kv in txt.split(' '):
            k, v = kv.split('=', 1); d[k] = v
        return d
    default = parse_state(dump['default'])
    n = 0
    for key, txt in dump.items():
        if key in ('default',) or key.endswith(':zero') or key == 'from:empty':
            continue
        parts = key.split(':')
        name = KEY2SETTER[parts[0]]
        if name not in setters:
            res['broken'].append('setter %s not recognised by the translator' % name); continue
        sur = (parts[1] == 'true') if len(parts) > 1 else False
        mr = int(parts[2]) if len(parts) > 2 else 0
        arg = {'with_escaping_of_non_ascii_chars': 'true' if sur else 'false', 'with_minimum_repetitions': str(mr), 'with_minimum_substring_length': str(mr + 1)}.get(name)
        exp = dict(default)
        for fld, val in setters[name]['ups']:
            k = [a for a, b in STATE_KEYS if b == fld][0]
            exp[k] = arg if val == 'arg' else val
        got = parse_state(txt)
        n += 1
        if {k: got[k] for k in exp if k != 'tcs'} != {k: exp[k] for k in exp if k != 'tcs'}:
            res['broken'].append('translator/compiled-code mismatch for setter %s: compiled %s, translated %s' % (name, txt, exp))
    msgs = {'mr:zero': 'MINIMUM_REPETITIONS_MESSAGE', 'ms:zero': 'MINIMUM_SUBSTRING_LENGTH_MESSAGE'}
    import re
    bu = rs2coq.read('src/builder.rs')
    for k, const in msgs.items():
        m = re.search(r'const %s: &str =\s*"([^"]*)";' % const, bu)
        if not m or dump.get(k) != m.group(1):
            res['broken'].append('panic message of %s: compiled %r, source constant %r' % (k, dump.get(k), m.group(1) if m else None))
    res['stats']['setters_validated'] = n

# ------------------------------------------------------------------------------------------ C10
def run_c10(pid, spec, res, st, tier, seed, helpers):
    n = 400 if tier == 'quick' else 6000
    nproc = 4 if tier == 'quick' else 16
    cs = casegen.generate(seed * 31 + 10, n, allow_flags=[f for f in casegen.FLAGS if f != 'E'])
    corpus = [dict(c) for c in helpers['load_corpus']()]
    allc = corpus + cs
    for i, c in enumerate(allc):
        c['id'] = i
    inp = ("\n".join(json.dumps({"id": c["id"], "tcs": c["tcs"], "f": c["f"], "mr": c.get("mr", 1), "ms": c.get("ms", 1)}) for c in allc) + "\n").encode()
    procs = [subprocess.Popen([runner.GREXV, 'perm'], stdin=subprocess.PIPE, stdout=subprocess.PIPE) for _ in range(nproc)]
    import threading
    outs = [None] * nproc
    def work(k):
        outs[k] = procs[k].communicate(inp)[0].decode()
    ths = [threading.Thread(target=work, args=(k,)) for k in range(nproc)]
    for t in ths: t.start()
    for t in ths: t.join()
    per = []
    for o in outs:
        d = {}
        for l in o.splitlines():
            if l.startswith('{'):
                r = json.loads(l); d[r['id']] = r
        per.append(d)
    fails = []
    variants = 0
    for c in allc:
        rs = [p.get(c['id']) for p in per]
        if any(r is None for r in rs):
            res['broken'].append('harness perm produced no result for case %s' % c['id']); continue
        r0 = rs[0]
        if 'panic' in r0 or 'harness_panic' in r0:
            continue     # panics are C07's business
        variants += r0.get('variants', 0) * nproc
        for k, r in enumerate(rs):
            if r.get('base') != r0.get('base'):
                fails.append((c, {'kind': 'process', 'detail': 'process %d returned a different string than process 0 (fresh hash seeds): %r vs %r' % (
                    k, ''.join(map(chr, r.get('base', []))), ''.join(map(chr, r0['base'])))}))
                break
            if r.get('bad'):
                b = r['bad'][0]
                fails.append((c, {'kind': 'variant', 'detail': 'variant %r returned %r instead of %r' % (
                    b.get('variant'), ''.join(map(chr, b.get('out', []))) if 'out' in b else b.get('panic'), ''.join(map(chr, b.get('want', []))))}))
                break
    # "a function of the test-case set and the settings": no state may survive from one build to the next inside a
    # process. Every case is built with all its options and with only its first option, in two processes that visit
    # the builds in opposite orders; each configuration must print the same string in both (seed C10e: a process-wide
    # cache keyed by the character alone)
    hist = []
    for c in allc:
        fl = [f for f in c['f'].split(',') if f]
        if len(fl) >= 2 and len(hist) < (600 if tier == 'quick' else 6000):
            hist.append(c)
    if hist:
        fulls = [dict(c, id=2 * i) for i, c in enumerate(hist)]
        parts = [dict(c, id=2 * i + 1, f=[f for f in c['f'].split(',') if f][0]) for i, c in enumerate(hist)]
        ra = runner.run_impl(parts + fulls, threads=1)
        rb = runner.run_impl(fulls + parts, threads=1)
        for q in fulls + parts:
            a, b = ra.get(q['id'], {}), rb.get(q['id'], {})
            if a.get('out') != b.get('out') and a.get('panic') is None and b.get('panic') is None:
                fails.append((q, {'kind': 'history', 'detail': 'options %r: built before the other configurations of the batch %r, built after them %r (state survives between builds in one process)' % (
                    q['f'], ''.join(map(chr, a.get('out') or []))[:120], ''.join(map(chr, b.get('out') or []))[:120])}))
                break
        res['stats']['history_pairs'] = len(hist)
    validate_setter_translation(res)
    # correspondence on the stages the determinism theorems talk about
    helpers['correspondence'](pid, spec, res, st, allc)
    res['stats'].update({'cases': len(allc), 'processes': nproc, 'variant_builds': variants, 'corpus': len(corpus)})
    helpers['distribution'](res, allc)
    for c, fl in fails[:3]:
        res['violations'].append({'case': {k: c[k] for k in ('tcs', 'f', 'mr', 'ms') if k in c}, 'original_case': {k: c[k] for k in ('tcs', 'f', 'mr', 'ms') if k in c},
                                  'failure': fl, 'output': None})
    res['unknown_failures'] = len(fails)
    for c in allc[len(corpus):len(corpus) + 3]:
        res['samples'].append({'test_cases': [''.join(map(chr, t)) for t in c['tcs']], 'flags': c['f'], 'variants': 'reversed, duplicated, shuffled, rebuild, clone, setter order, interleaved builds, 8 threads, %d processes' % nproc})
    return res

# ------------------------------------------------------------------------------------------ C12
CLI_FLAG = {'d': ['-d'], 'D': ['-D'], 's': ['-s'], 'S': ['-S'], 'w': ['-w'], 'W': ['-W'], 'r': ['-r'], 'i': ['-i'], 'g': ['-g'],
            'e': ['-e'], 'E': ['-e', '--with-surrogates'], 'x': ['-x'], 'c': ['-c'], 'ns': ['--no-start-anchor'], 'ne': ['--no-end-anchor']}
LONG_FLAG = {'d': ['--digits'], 'D': ['--non-digits'], 's': ['--spaces'], 'S': ['--non-spaces'], 'w': ['--words'], 'W': ['--non-words'],
             'r': ['--repetitions'], 'i': ['--ignore-case'], 'g': ['--capture-groups'], 'e': ['--escape'], 'E': ['--escape', '--with-surrogates'],
             'x': ['--verbose'], 'c': ['--colorize'], 'ns': ['--no-start-anchor'], 'ne': ['--no-end-anchor']}

def cli_args(c, rnd):
    fl = flags_of(c)
    args = []
    if 'ns' in fl and 'ne' in fl and rnd.random() < 0.5:
        fl = [f for f in fl if f not in ('ns', 'ne')]
        args.append('--no-anchors')
    for f in fl:
        args += (CLI_FLAG if rnd.random() < 0.5 else LONG_FLAG)[f]
    if c.get('mr', 1) != 1 or rnd.random() < 0.3:
        args += ['--min-repetitions', str(c.get('mr', 1))]
    if c.get('ms', 1) != 1 or rnd.random() < 0.3:
        args += ['--min-substring-length', str(c.get('ms', 1))]
    rnd.shuffle(args) if not any(a.startswith('--min') for a in args) else None
    return args

def arg_safe(t):
    s = ''.join(map(chr, t))
    return '\x00' not in s and not s.startswith('-') and '\n' not in s and '\r' not in s

def run_cli(args, stdin=None, timeout=60):
    p = subprocess.run([CLI] + args, input=stdin, capture_output=True, timeout=timeout)
    return p.returncode, p.stdout, p.stderr

def run_c12(pid, spec, res, st, tier, seed, helpers):
    try:
        build_cli()
    except runner.BuildError as e:
        res['broken'].append('%s: %s' % (e.what, e.log[-800:]))
        return res
    n = 160 if tier == 'quick' else 4000
    rnd = random.Random(seed + 12)
    gen = casegen.generate(seed * 31 + 12, n * 2, allow_flags=casegen.FLAGS)
    cs = []
    for c in gen:
        c['tcs'] = [t for t in c['tcs'] if arg_safe(t)]
        if c['tcs'] and len(cs) < n:
            cs.append(c)
    for i, c in enumerate(cs):
        c['id'] = i
    impl = runner.run_impl(cs)
    fails = []
    runs = 0
    tmpd = tempfile.mkdtemp(prefix='grexcli', dir=BUILD)
    try:
        for c in cs:
            r = impl.get(c['id'])
            if r is None or r.get('panic') is not None or 'harness_panic' in r:
                continue
            want = (''.join(map(chr, r['out'])) + '\n').encode('utf-8')
            flags = cli_args(c, rnd)
            strs = [''.join(map(chr, t)) for t in c['tcs']]
            # (1) arguments: an empty test case is a legitimate empty argument
            chans = [('args', flags + strs, None)]
            sep = rnd.choice(['\n', '\r\n'])
            final_nl = rnd.random() < 0.5 or strs[-1] == ''
            content = sep.join(strs) + (sep if final_nl else '')
            if strs == ['']:
                content = sep          # a single blank line
            path = os.path.join(tmpd, 'in_%d.txt' % c['id'])
            open(path, 'wb').write(content.encode('utf-8'))
            chans.append(('file', flags + ['-f', path], None))
            chans.append(('stdin', flags + ['-'], content.encode('utf-8')))
            chans.append(('file-from-stdin', flags + ['-f', '-'], (path + ('\n' if rnd.random() < 0.5 else '')).encode()))
            for name, args, inp in (chans if tier != 'quick' else [chans[0]] + rnd.sample(chans[1:], 2)):
                rc, out, err = run_cli(args, inp)
                runs += 1
                if rc != 0 or out != want:
                    fails.append((c, {'kind': 'cli-' + name, 'detail': 'channel %s (%s line ends, final newline %s): exit %d, stdout %r, expected %r, stderr %r' % (
                        name, 'CRLF' if sep == '\r\n' else 'LF', final_nl, rc, out.decode('utf-8', 'replace')[:200], want.decode()[:200], err.decode('utf-8', 'replace')[:200]),
                        'args': args if name != 'args' else None}))
                    break
        # a lone "-" means standard input; "-" among several arguments is a test case like any other, whatever
        # standard input holds (seed C12e)
        dash_sets = [["-", "a", "b"], ["-", "-"], ["a", "-"], ["-", ""], ["-", "x", "-"]]
        dcs = [{'id': k, 'tcs': [[ord(ch) for ch in w] for w in ws_], 'f': '', 'mr': 1, 'ms': 1} for k, ws_ in enumerate(dash_sets)]
        dimpl = runner.run_impl(dcs)
        for dc, ws_ in zip(dcs, dash_sets):
            r = dimpl.get(dc['id'])
            if r is None or r.get('out') is None:
                continue
            want = (''.join(map(chr, r['out'])) + '\n').encode('utf-8')
            for inp in (b'x\ny\n', b''):
                rc, out, err = run_cli(list(ws_), inp); runs += 1
                if rc != 0 or out != want:
                    fails.append((dc, {'kind': 'cli-args-dash', 'detail': 'arguments %r with standard input %r: exit %d, stdout %r, expected %r, stderr %r' % (
                        ws_, inp, rc, out.decode('utf-8', 'replace')[:200], want.decode()[:200], err.decode('utf-8', 'replace')[:200]), 'args': list(ws_)}))
                    break
        # carriage returns that are NOT part of a CRLF line end belong to the test case (seed C12h: lines split at LF only and
        # one trailing CR stripped from every test case on every channel): arguments ending in CR, a last line ending in a
        # bare CR without LF, CR CR LF, a lone CR
        def rust_lines(txt):
            parts = txt.split('\n')
            terminated = [True] * (len(parts) - 1) + [False]
            if parts and parts[-1] == '':
                parts.pop(); terminated.pop()
            return [p_[:-1] if (t_ and p_.endswith('\r')) else p_ for p_, t_ in zip(parts, terminated)]
        cr_args = [["key=value\r", "key=other"], ["a\r"], ["\r"], ["a\r\n"], ["a\rb", "c\r"], ["x\r\r"]]
        cr_files = ['ab\ncd\r', 'ab\r\ncd\r', 'a\r\r\n', '\r', 'x\r\ny\r\r\nz\r', 'p\rq\n', 'one\r\ntwo\r\n\r']
        cr_cases = [('args', ws_, None) for ws_ in cr_args] + [('content', rust_lines(t_), t_) for t_ in cr_files]
        ccs = [{'id': k, 'tcs': [[ord(ch) for ch in w] for w in ws_], 'f': '', 'mr': 1, 'ms': 1} for k, (_, ws_, _) in enumerate(cr_cases)]
        cimpl = runner.run_impl(ccs)
        for cc, (kind_, ws_, txt) in zip(ccs, cr_cases):
            r = cimpl.get(cc['id'])
            if r is None or r.get('out') is None:
                continue
            want = (''.join(map(chr, r['out'])) + '\n').encode('utf-8')
            if kind_ == 'args':
                trials = [('args', list(ws_), None)]
            else:
                fp = os.path.join(tmpd, 'cr_%d.txt' % cc['id']); open(fp, 'wb').write(txt.encode('utf-8'))
                trials = [('file', ['-f', fp], None), ('stdin', ['-'], txt.encode('utf-8')), ('file-from-stdin', ['-f', '-'], fp.encode())]
            for name, args, inp in trials:
                rc, out, err = run_cli(args, inp); runs += 1
                if rc != 0 or out != want:
                    fails.append((cc, {'kind': 'cli-cr-' + name, 'detail': 'carriage return outside a CRLF line end, channel %s, input %r: exit %d, stdout %r, expected %r (test cases %r), stderr %r' % (
                        name, txt if txt is not None else ws_, rc, out.decode('utf-8', 'replace')[:200], want.decode()[:200], ws_, err.decode('utf-8', 'replace')[:200]), 'args': args}))
                    break
        # files that start with U+FEFF: the byte-order mark is not stripped by str::lines, nor by from() (seed C12f)
        for k, content in enumerate(['\ufeffabc\nxyz\n', '\ufeff', 'a\n\ufeffb\n', '\ufeff\r\nq']):
            open(os.path.join(tmpd, 'in_!bom%d.txt' % k), 'wb').write(content.encode('utf-8'))
        # error inputs: non-zero exit, one-line message, never a panic
        errs = []
        empty = os.path.join(tmpd, 'empty.txt'); open(empty, 'wb').close()
        bad = os.path.join(tmpd, 'bad.txt'); open(bad, 'wb').write(b'ab\xff\xfe\n')
        blank = os.path.join(tmpd, 'blank.txt'); open(blank, 'wb').write(b'\n')
        missing = os.path.join(tmpd, 'does-not-exist.txt')
        errs.append(('empty file', ['-f', empty], None))
        errs.append(('non-UTF-8 file', ['-f', bad], None))
        errs.append(('missing file', ['-f', missing], None))
        errs.append(('missing file named on stdin', ['-f', '-'], missing.encode()))
        errs.append(('empty stdin', ['-'], b''))
        errs.append(('non-UTF-8 stdin', ['-'], b'ab\xff\xfe\n'))
        # invalid bytes only AFTER valid lines, in the last unterminated line, with CRLF — on all three channels (seed C12c:
        # a reader that stops at the first undecodable line would print a regex for the lines before it)
        for tag, data in (('later line', b'abc\nabd\n\xff\xfe\nxyz\n'), ('later line CRLF', b'abc\r\nabd\r\n\xff\xfe\r\nxyz\r\n'),
                          ('last line without newline', b'abc\nabd\nxy\xff'), ('truncated UTF-8 sequence', b'abc\n\xe2\x82')):
            fpath = os.path.join(tmpd, 'bad_%s.txt' % tag.replace(' ', '_')); open(fpath, 'wb').write(data)
            errs.append(('non-UTF-8 file', ['-f', fpath], None))
            errs.append(('non-UTF-8 stdin', ['-'], data))
            errs.append(('non-UTF-8 file named on stdin', ['-f', '-'], fpath.encode()))
        errs.append(('zero repetitions', ['--min-repetitions', '0', 'a'], None))
        errs.append(('zero substring length', ['--min-substring-length', '0', 'a'], None))
        errs.append(('surrogates without escape', ['--with-surrogates', 'a'], None))
        for name, args, inp in errs:
            rc, out, err = run_cli(args, inp)
            runs += 1
            e = err.decode('utf-8', 'replace')
            if rc == 0 or 'panicked' in e or rc == 101 or not e.strip() or (name.startswith('non-UTF-8') and out.strip()):
                fails.append(({'tcs': [], 'f': '', 'id': -1}, {'kind': 'cli-error', 'detail': '%s: exit %d, stderr %r' % (name, rc, e[:300]), 'args': args}))
            elif name in ('empty file', 'non-UTF-8 file', 'missing file', 'missing file named on stdin', 'empty stdin', 'non-UTF-8 stdin', 'non-UTF-8 file named on stdin') and len(e.strip().splitlines()) != 1:
                fails.append(({'tcs': [], 'f': '', 'id': -1}, {'kind': 'cli-error', 'detail': '%s: error message is not one line: %r' % (name, e[:300]), 'args': args}))
        # a blank-only file is the legitimate test case [""]
        rc, out, err = run_cli(['-f', blank]); runs += 1
        if rc != 0 or out != b'^$\n':
            fails.append(({'tcs': [[]], 'f': '', 'id': -1}, {'kind': 'cli-file', 'detail': 'blank-only file: exit %d stdout %r' % (rc, out[:100])}))
        # RegExpBuilder::from_file behaves like from() on the file's lines (model: Print.lines, validated below)
        paths = [os.path.join(tmpd, f) for f in sorted(os.listdir(tmpd)) if f.startswith('in_')][:60] + [blank]
        rc_, out_, err_ = sh([runner.GREXV, 'fromfile'], inp=("\n".join(paths) + "\n").encode())
        states = [json.loads(l) for l in out_.splitlines() if l.startswith('{')]
        contents = [list(open(p_, 'rb').read().decode('utf-8')) for p_ in paths]
        rc2_, out2_, err2_ = sh([runner.DRIVER, '--lines'], inp=("\n".join(",".join(str(ord(ch)) for ch in t) for t in contents) + "\n").encode())
        mlines = out2_.splitlines()
        if rc_ != 0 or rc2_ != 0 or len(states) != len(paths) or len(mlines) != len(paths):
            res['broken'].append('from_file probe could not run: %s %s' % (err_[-200:], err2_[-200:]))
        else:
            for p_, st_, ml in zip(paths, states, mlines):
                want = 'tcs=' + ';'.join('[' + w_ + ']' for w_ in ml.split(';')) if ml != '-' else 'tcs='
                got = st_.get('state', '')
                got_tcs = got[got.index('tcs='):] if 'tcs=' in got else None
                if got_tcs != want:
                    fails.append(({'tcs': [], 'f': '', 'id': -1}, {'kind': 'from-file', 'detail': 'RegExpBuilder::from_file(%s) holds %r, the lines of the file are %r' % (os.path.basename(p_), (got_tcs or st_.get('panic'))[:150], want[:150])}))
            res['stats']['from_file_probes'] = len(paths)
    finally:
        shutil.rmtree(tmpd, ignore_errors=True)
    validate_setter_translation(res)
    # str::lines model validation
    helpers['lines_validation'](res, cs, seed)
    res['stats'].update({'cases': len(cs), 'cli_runs': runs, 'corpus': 0})
    helpers['distribution'](res, cs)
    for c, fl in fails[:3]:
        res['violations'].append({'case': {k: c[k] for k in ('tcs', 'f', 'mr', 'ms') if k in c}, 'original_case': {k: c[k] for k in ('tcs', 'f', 'mr', 'ms') if k in c},
                                  'failure': fl, 'output': None})
    res['unknown_failures'] = len(fails)
    for c in cs[:3]:
        res['samples'].append({'argv': cli_args(c, random.Random(1)) + [''.join(map(chr, t)) for t in c['tcs']]})
    return res

# ------------------------------------------------------------------------------------------ C14
PYRUN = r'''
import sys, json, re
sys.path.insert(0, %r)
import grex
cases = json.load(sys.stdin)
out = []
M = {'d': 'with_conversion_of_digits', 'D': 'with_conversion_of_non_digits', 's': 'with_conversion_of_whitespace', 'S': 'with_conversion_of_non_whitespace',
     'w': 'with_conversion_of_words', 'W': 'with_conversion_of_non_words', 'r': 'with_conversion_of_repetitions', 'i': 'with_case_insensitive_matching',
     'g': 'with_capturing_groups', 'x': 'with_verbose_mode', 'ns': 'without_start_anchor', 'ne': 'without_end_anchor'}
for c in cases:
    tcs = [''.join(map(chr, t)) for t in c['tcs']]
    fl = [f for f in c['f'].split(',') if f]
    try:
        b = grex.RegExpBuilder(tcs) if c['id'] %% 2 else grex.RegExpBuilder.from_test_cases(tcs)
        for f in fl:
            if f in M: b = getattr(b, M[f])()
            elif f == 'e': b = b.with_escaping_of_non_ascii_chars(False)
            elif f == 'E': b = b.with_escaping_of_non_ascii_chars(True)
        b = b.with_minimum_repetitions(c.get('mr', 1)).with_minimum_substring_length(c.get('ms', 1))
        # a rejected setter call must leave the builder as it was (the library panics before touching its
        # configuration): the ValueError is caught and the same builder is built (seed C14d)
        for rej in c.get('rej', []):
            try:
                if rej[0] == 'mr': b.with_minimum_repetitions(rej[1])
                else: b.with_minimum_substring_length(rej[1])
                raise AssertionError('no ValueError for %%r' %% (rej,))
            except ValueError:
                pass
        p = b.build()
    except BaseException as e:
        out.append({'id': c['id'], 'exc': repr(e)}); continue
    r = {'id': c['id'], 'out': [ord(x) for x in p]}
    try:
        rx = re.compile(p)
        r['compiles'] = True
        if not any(f in fl for f in 'dDsSwW'):
            r['unmatched'] = [t for t, s in zip(c['tcs'], tcs) if rx.fullmatch(s) is None]
    except re.error as e:
        r['compiles'] = str(e)
    out.append(r)
errs = {}
for name, fn in [('empty', lambda: grex.RegExpBuilder([])), ('empty_cls', lambda: grex.RegExpBuilder.from_test_cases([])),
                 ('mr0', lambda: grex.RegExpBuilder(['a']).with_minimum_repetitions(0)), ('mr-1', lambda: grex.RegExpBuilder(['a']).with_minimum_repetitions(-1)),
                 ('ms0', lambda: grex.RegExpBuilder(['a']).with_minimum_substring_length(0)), ('ms-5', lambda: grex.RegExpBuilder(['a']).with_minimum_substring_length(-5))]:
    try:
        fn(); errs[name] = None
    except ValueError as e:
        errs[name] = ['ValueError', str(e)]
    except BaseException as e:
        errs[name] = [type(e).__name__, str(e)]
json.dump({'results': out, 'errors': errs}, sys.stdout)
'''

def py_expected(rust_out):
    """the documented rewrite: every \\u{h..} becomes \\uXXXX or \\UXXXXXXXX"""
    import re
    s = ''.join(map(chr, rust_out))
    def rep(m):
        cp = int(m.group(1), 16)
        return '\\u%04x' % cp if cp <= 0xffff else '\\U%08x' % cp
    return re.sub(r'\\u\{([0-9a-f]+)\}', rep, s)

def run_c14(pid, spec, res, st, tier, seed, helpers):
    try:
        build_py()
    except runner.BuildError as e:
        res['broken'].append('%s: %s' % (e.what, e.log[-800:]))
        return res
    n = 600 if tier == 'quick' else 20000
    alph = [a for a in casegen.ALPHABETS if a[0] in ('astral', 'bound', 'marks', 'mixed', 'cased', 'ab', 'meta', 'ws')]
    cs = casegen.generate(seed * 31 + 14, n, allow_flags=[f for f in casegen.FLAGS if f != 'c'], alphabets=alph)
    rnd = random.Random(seed + 14)
    forced = [0x80, 0xe9, 0x100, 0xfff, 0x1000, 0xffff, 0x10000, 0xfffff, 0x100000, 0x10ffff]
    for i, c in enumerate(cs):
        c['id'] = i
        # the Python setters take an i32: larger thresholds are outside the binding's domain (OverflowError from pyo3)
        c['mr'] = min(c.get('mr', 1), 2 ** 31 - 1); c['ms'] = min(c.get('ms', 1), 2 ** 31 - 1)
        if rnd.random() < 0.5:
            fl = flags_of(c)
            if 'e' not in fl and 'E' not in fl:
                fl.append(rnd.choice(['e', 'e', 'E'])); c['f'] = ','.join(fl)
            c['tcs'][rnd.randrange(len(c['tcs']))] += [rnd.choice(forced)] * rnd.randint(1, 3)
        if i % 4 == 0:
            c['rej'] = [rnd.choice([['mr', 0], ['mr', -1], ['ms', 0], ['ms', -3], ['mr', -2 ** 31]]) for _ in range(rnd.randint(1, 2))]
            fl = flags_of(c)
            if rnd.random() < 0.7 and 'r' not in fl:
                fl.append('r'); c['f'] = ','.join(fl)
            if rnd.random() < 0.5:
                c['mr'] = rnd.choice([2, 3]); c['ms'] = rnd.choice([1, 2, 3])
                c['tcs'].append(rnd.choice([[97, 97, 98, 97, 98], [97, 98, 97, 98, 97, 98], [120, 97, 97, 97, 121], [120, 97, 97, 121]]))
    impl = runner.run_impl(cs)
    p = subprocess.run([sys.executable, '-c', PYRUN % PYDIR], input=json.dumps([{k: c[k] for k in ('id', 'tcs', 'f', 'mr', 'ms', 'rej') if k in c} for c in cs]).encode(),
                       capture_output=True, timeout=3600)
    if p.returncode != 0:
        res['broken'].append('Python runner failed: ' + p.stderr.decode('utf-8', 'replace')[-800:])
        return res
    pr = json.loads(p.stdout)
    pyres = {r['id']: r for r in pr['results']}
    # the Coq model of the rewrite (Model/PyRewrite.v, extracted) on the library's outputs
    outs = [impl[c['id']]['out'] for c in cs if impl.get(c['id']) and impl[c['id']].get('out') is not None]
    pyd = os.path.join(BUILD, 'extracted', 'pydriver')
    if os.path.exists(pyd):
        rc2, out2, err2 = sh([pyd], inp=("\n".join(",".join(map(str, o)) for o in outs) + "\n").encode())
    else:
        rc2, out2, err2 = 1, '', 'build/extracted/pydriver was not built'
    model_rw = {}
    if rc2 != 0:
        res['broken'].append('the extracted py_rewrite model is not available (gen/SrcPython.v does not build?): ' + err2[-300:])
    else:
        for o, l in zip(outs, out2.splitlines()):
            model_rw[tuple(o)] = [int(x) for x in l.split(',') if x]
    rw_checked = 0
    fails = []
    known_counts = {}
    for c in cs:
        r = impl.get(c['id']); q = pyres.get(c['id'])
        if r and q and r.get('out') is not None and 'out' in q and ('e' in flags_of(c) or 'E' in flags_of(c)) and tuple(r['out']) in model_rw:
            rw_checked += 1
            if model_rw[tuple(r['out'])] != q['out'] and not any(b.startswith('correspondence: py_rewrite') for b in res['broken']):
                res['broken'].append('correspondence: py_rewrite model disagrees with the extension module on %r: model %r, module %r' % (
                    ''.join(map(chr, r['out']))[:120], ''.join(map(chr, model_rw[tuple(r['out'])]))[:120], ''.join(map(chr, q['out']))[:120]))
        res['stats']['py_rewrite_compared'] = rw_checked
        if r is None or q is None or r.get('panic') is not None:
            continue
        fl = flags_of(c)
        if 'exc' in q:
            fails.append((c, {'kind': 'py-exception', 'detail': q['exc'][:300]})); continue
        want = py_expected(r['out']) if ('e' in fl or 'E' in fl) else ''.join(map(chr, r['out']))
        got = ''.join(map(chr, q['out']))
        if got != want:
            fails.append((c, {'kind': 'py-rewrite', 'detail': 'Python build() returned %r, expected %r (library: %r)' % (got[:200], want[:200], ''.join(map(chr, r['out']))[:200])})); continue
        if q.get('compiles') is not True and 'E' not in fl:
            fails.append((c, {'kind': 'py-compile', 'detail': 're.compile rejects %r: %s' % (got[:200], q.get('compiles'))})); continue
        if q.get('unmatched') and 'E' not in fl:
            v = r.get('verdicts', {})
            um = q['unmatched']
            if v.get('k4') and all(t == [] for t in um):
                known_counts['K4'] = known_counts.get('K4', 0) + 1
            elif 'i' in fl:
                pass   # Python's re folds case differently from the regex crate: outside the property ("when no shorthand-class option is used ... fully matches") we only judge case-sensitive builds
            else:
                fails.append((c, {'kind': 'py-unmatched', 'detail': 're.fullmatch rejects test cases %s with %r' % (um[:3], got[:200])}))
    e = pr['errors']
    msgs = {'empty': 'No test cases have been provided for regular expression generation', 'empty_cls': 'No test cases have been provided for regular expression generation',
            'mr0': 'Quantity of minimum repetitions must be greater than zero', 'mr-1': 'Quantity of minimum repetitions must be greater than zero',
            'ms0': 'Minimum substring length must be greater than zero', 'ms-5': 'Minimum substring length must be greater than zero'}
    for k, m in msgs.items():
        if e.get(k) != ['ValueError', m]:
            fails.append(({'tcs': [], 'f': '', 'id': -1}, {'kind': 'py-error', 'detail': '%s raised %r, expected ValueError(%r)' % (k, e.get(k), m)}))
    res['stats'].update({'cases': len(cs), 'corpus': 0, 'known_class_failures': known_counts})
    helpers['distribution'](res, cs)
    for c, fl in fails[:3]:
        res['violations'].append({'case': {k: c[k] for k in ('tcs', 'f', 'mr', 'ms') if k in c}, 'original_case': {k: c[k] for k in ('tcs', 'f', 'mr', 'ms') if k in c},
                                  'failure': fl, 'output': None})
    res['unknown_failures'] = len(fails)
    for c in cs[:3]:
        q = pyres.get(c['id'], {})
        res['samples'].append({'test_cases': [''.join(map(chr, t)) for t in c['tcs']], 'flags': c['f'], 'python_output': ''.join(map(chr, q.get('out', [])))})
    return res

# ------------------------------------------------------------------------------------------ C17
WASM_CALLS = ['withConversionOfDigits', 'withConversionOfNonDigits', 'withConversionOfWhitespace', 'withConversionOfNonWhitespace', 'withConversionOfWords',
              'withConversionOfNonWords', 'withConversionOfRepetitions', 'withCaseInsensitiveMatching', 'withCapturingGroups', 'withEscapingOfNonAsciiChars',
              'withVerboseMode', 'withoutStartAnchor', 'withoutEndAnchor', 'withoutAnchors', 'withMinimumRepetitions', 'withMinimumSubstringLength', 'build']

def run_c17(pid, spec, res, st, tier, seed, helpers):
    n = 600 if tier == 'quick' else 20000
    rnd = random.Random(seed + 17)
    cs = casegen.generate(seed * 31 + 17, n, allow_flags=[], alphabets=[a for a in casegen.ALPHABETS if a[0] in ('ab', 'abc', 'astral', 'mixed', 'meta', 'ab.-', 'cased', 'digits')])
    lines = []
    for i, c in enumerate(cs):
        c['id'] = i
        items = [t for t in c['tcs']]
        if rnd.random() < 0.2:
            items.insert(rnd.randrange(len(items) + 1), None)     # a non-string JS value is filtered out
        if rnd.random() < 0.03:
            items = [None] * rnd.randint(0, 2)                     # nothing usable: must throw the library's message
        elif rnd.random() < 0.04:
            items = [[]] * rnd.randint(1, 3)                       # only empty strings: these ARE test cases (library: ^$) — seed C17d
        elif rnd.random() < 0.04:
            items = [[]] + items                                    # an empty string next to others
        calls = []
        for _ in range(rnd.randint(0, 8)):
            name = rnd.choice(WASM_CALLS)
            target = rnd.randint(0, 6)
            val = rnd.choice([0, 1, 1, 2, 3]) if name.startswith('withMinimum') else rnd.randint(0, 1)
            calls.append([name, (target << 8) | val])
        if rnd.random() < 0.3:
            # "last call wins" sequences on ONE object: escaping(true) then escaping(false); thresholds 3 then 2
            t = rnd.randint(0, 2)
            seqs = [[['withEscapingOfNonAsciiChars', (t << 8) | 1], ['withEscapingOfNonAsciiChars', (t << 8) | 0]],
                    [['withConversionOfRepetitions', t << 8], ['withMinimumRepetitions', (t << 8) | 3], ['withMinimumRepetitions', (t << 8) | 2]],
                    [['withConversionOfRepetitions', t << 8], ['withMinimumSubstringLength', (t << 8) | 3], ['withMinimumSubstringLength', (t << 8) | 1]]]
            pos = rnd.randint(0, len(calls))
            calls[pos:pos] = rnd.choice(seqs)
            if items and items[0] is not None and rnd.random() < 0.7:
                items[0] = items[0] + [0x1f4a9]
        c['items'] = items; c['calls'] = calls
        lines.append(json.dumps({'id': i, 'items': items, 'calls': calls}))
    validate_setter_translation(res)
    rc, out, err = sh([runner.GREXV, 'wasm'], inp=("\n".join(lines) + "\n").encode(), timeout=3600)
    if rc != 0:
        res['broken'].append('harness wasm run failed: ' + err[-800:])
        return res
    fails = []
    ncalls = 0
    for l in out.splitlines():
        if not l.startswith('{'):
            continue
        r = json.loads(l)
        c = cs[r['id']]
        ncalls += len(c['calls'])
        if r['bad']:
            fails.append((c, {'kind': 'wasm', 'detail': json.dumps(r['bad'][0])[:400], 'calls': c['calls'], 'items': c['items']}))
    res['stats'].update({'cases': len(cs), 'corpus': 0, 'wasm_calls': ncalls})
    helpers['distribution'](res, cs)
    for c, fl in fails[:3]:
        res['violations'].append({'case': {'tcs': c['tcs'], 'f': '', 'items': c['items'], 'calls': c['calls']}, 'original_case': {'tcs': c['tcs'], 'f': ''}, 'failure': fl, 'output': None})
    res['unknown_failures'] = len(fails)
    for c in cs[:3]:
        res['samples'].append({'items': [None if t is None else ''.join(map(chr, t)) for t in c['items']], 'calls': [[a, b >> 8, b & 255] for a, b in c['calls']]})
    return res


# ------------------------------------------------------------------------------------------ probes used by C08 / C13
def cli_anchor_probe(res, seed):
    """C08 through the front end: every subset of the three anchor flags on the real binary vs the library"""
    try:
        build_cli()
    except runner.BuildError as e:
        res['broken'].append('%s: %s' % (e.what, e.log[-400:])); return []
    sets = [["a", "ab", "abc"], ["xyz", "ab"], ["1", "22"], ["b"]]
    fails = []
    runs = 0
    cs = []
    for i, strs in enumerate(sets):
        for mask in range(8):
            fl = []
            args = []
            if mask & 1: args.append('--no-start-anchor')
            if mask & 2: args.append('--no-end-anchor')
            if mask & 4: args.append('--no-anchors')
            if mask & 1 or mask & 4: fl.append('ns')
            if mask & 2 or mask & 4: fl.append('ne')
            extra_f = ['x'] if (i + mask) % 3 == 0 else []
            cs.append({'id': len(cs), 'tcs': [[ord(c) for c in s_] for s_ in strs], 'f': ','.join(fl + extra_f), 'mr': 1, 'ms': 1, 'args': args + (['-x'] if extra_f else []), 'strs': strs})
    impl = runner.run_impl(cs)
    for c in cs:
        r = impl.get(c['id'])
        if not r or r.get('out') is None:
            continue
        want = (''.join(map(chr, r['out'])) + '\n').encode()
        rc, out, err = run_cli(c['args'] + c['strs']); runs += 1
        if rc != 0 or out != want:
            fails.append((c, {'kind': 'cli-anchor', 'detail': 'grex %s %s printed %r, the library with the corresponding settings gives %r' % (
                ' '.join(c['args']), ' '.join(c['strs']), out.decode('utf-8', 'replace')[:120], want.decode()[:120]), 'args': c['args']}))
    res['stats']['cli_anchor_runs'] = runs
    return fails

PYPROBE = r'''
import sys, json
sys.path.insert(0, %r)
import grex
out = []
for c in json.load(sys.stdin):
    b = grex.RegExpBuilder([''.join(map(chr, t)) for t in c['tcs']]).with_conversion_of_repetitions()
    if 'd' in c['f']: b = b.with_conversion_of_digits()
    b = b.with_minimum_repetitions(c['mr']).with_minimum_substring_length(c['ms'])
    out.append([ord(x) for x in b.build()])
json.dump(out, sys.stdout)
'''

def builder_order_probe(res, seed):
    """C13 through the builder's call order: thresholds set before or after conversion of repetitions is requested
    must give the same pattern (the configured value is what counts, whenever it was configured)"""
    cs = []
    words = [["aaa"], ["aa", "bcbc", "defdefdef"], ["ababab"], ["aaabaaabaaab"], ["xyxyxyz", "xyxy"], ["aabbaabb"]]
    for ws in words:
        for mr in (1, 2, 3):
            for ms in (1, 2, 3):
                for tf in (False, True):
                    cs.append({'id': len(cs), 'tcs': [[ord(ch) for ch in w] for w in ws], 'f': 'r', 'mr': mr, 'ms': ms, 'thr_first': tf})
    impl = runner.run_impl(cs)
    fails = []
    for a, b in zip(cs[0::2], cs[1::2]):
        ra, rb = impl.get(a['id']), impl.get(b['id'])
        if ra and rb and ra.get('out') != rb.get('out'):
            fails.append((a, {'kind': 'builder-order', 'detail': 'thresholds (%d,%d) set before with_conversion_of_repetitions() give %r, set after it %r' % (
                a['mr'], a['ms'], ''.join(map(chr, rb.get('out') or []))[:100], ''.join(map(chr, ra.get('out') or []))[:100])}))
    res['stats']['builder_order_cases'] = len(cs)
    return fails

def python_threshold_probe(res, seed):
    """C13 through the Python binding (its threshold setters write the configuration directly)"""
    try:
        build_py()
    except runner.BuildError as e:
        res['broken'].append('%s: %s' % (e.what, e.log[-400:])); return []
    cs = []
    words = ["aaa", "aaaa", "ababab", "aaabaaabaaab", "2024", "xyxyxyz", "aabbaabb"]
    for w in words:
        for mr in (1, 2, 3, 4):
            for ms in (1, 2, 3):
                cs.append({'id': len(cs), 'tcs': [[ord(ch) for ch in w]], 'f': 'r,d' if w.isdigit() else 'r', 'mr': mr, 'ms': ms})
    impl = runner.run_impl(cs)
    p = subprocess.run([sys.executable, '-c', PYPROBE % PYDIR], input=json.dumps(cs).encode(), capture_output=True, timeout=600)
    if p.returncode != 0:
        res['broken'].append('Python probe failed: ' + p.stderr.decode('utf-8', 'replace')[-400:]); return []
    py = json.loads(p.stdout)
    fails = []
    for c, q in zip(cs, py):
        r = impl.get(c['id'])
        if r and r.get('out') is not None and q != r['out']:
            fails.append((c, {'kind': 'py-threshold', 'detail': 'Python binding with min_repetitions=%d min_substring_length=%d returns %r, the library %r' % (
                c['mr'], c['ms'], ''.join(map(chr, q))[:100], ''.join(map(chr, r['out']))[:100])}))
    res['stats']['python_threshold_cases'] = len(cs)
    return fails
