"""Builds and runs the implementation harness and the extracted Coq model, compares them."""
import json, os, subprocess, sys, hashlib, time, fcntl, shutil

VERIF = os.path.dirname(os.path.dirname(os.path.abspath(__file__)))
REPO = os.environ.get('GREX_REPO', '/repo')
BUILD = os.path.join(VERIF, 'build')
HARNESS = os.path.join(VERIF, 'harness')
COQ = os.path.join(VERIF, 'coq')
ENV = dict(os.environ, CARGO_NET_OFFLINE='true', CARGO_TARGET_DIR=os.path.join(BUILD, 'harness-target'),
           RUSTFLAGS='--cfg grex_verif --cfg grex_verif_wasm')
GREXV = os.path.join(BUILD, 'harness-target', 'release', 'grexv')
DRIVER = os.path.join(BUILD, 'extracted', 'driver')

class BuildError(Exception):
    def __init__(self, what, log):
        super().__init__(what); self.what = what; self.log = log

def sh(cmd, cwd=None, env=None, timeout=3600, inp=None):
    p = subprocess.run(cmd, cwd=cwd, env=env, input=inp, capture_output=True, timeout=timeout)
    return p.returncode, p.stdout.decode('utf-8', 'replace'), p.stderr.decode('utf-8', 'replace')

class Lock:
    def __enter__(self):
        os.makedirs(BUILD, exist_ok=True)
        self.f = open(os.path.join(BUILD, '.lock'), 'w')
        fcntl.flock(self.f, fcntl.LOCK_EX)
        return self
    def __exit__(self, *a):
        fcntl.flock(self.f, fcntl.LOCK_UN); self.f.close()

def build_harness():
    """cargo build of the harness crate against /repo's working tree (cargo decides staleness)."""
    shutil.copyfile(os.path.join(REPO, 'Cargo.lock'), os.path.join(HARNESS, 'Cargo.lock'))
    rc, out, err = sh(['cargo', 'build', '--offline', '--release', '--quiet'], cwd=HARNESS, env=ENV, timeout=1800)
    if rc != 0:
        raise BuildError('harness build (the working tree does not compile with cfg(grex_verif))', err[-4000:])

def file_hash(*paths):
    h = hashlib.sha256()
    for p in paths:
        with open(p, 'rb') as f:
            h.update(f.read())
    return h.hexdigest()

def dump_tables():
    """harness dump → build/dump.json (cached on the harness binary's content)."""
    key = file_hash(GREXV)
    cache = os.path.join(BUILD, 'dump.json')
    keyf = cache + '.key'
    if os.path.exists(cache) and os.path.exists(keyf) and open(keyf).read() == key:
        return json.load(open(cache))
    rc, out, err = sh([GREXV, 'dump'], timeout=1800)
    if rc != 0:
        raise BuildError('harness dump', err[-2000:])
    d = json.loads(out)
    json.dump(d, open(cache, 'w'))
    open(keyf, 'w').write(key)
    return d

def run_impl(cases, lang=False, threads=16):
    lines = []
    for c in cases:
        d = {"id": c["id"], "tcs": c["tcs"], "f": c["f"], "mr": c.get("mr", 1), "ms": c.get("ms", 1), "lang": bool(c.get("lang", lang)), "thr_first": bool(c.get("thr_first", False)), "lang_anchor": bool(c.get("lang_anchor", False)), "esc_twice": bool(c.get("esc_twice", False))}
        lines.append(json.dumps(d))
    env = dict(os.environ, GREXV_THREADS=str(threads))
    rc, out, err = sh([GREXV, 'run'], inp=("\n".join(lines) + "\n").encode(), env=env, timeout=7200)
    if rc != 0:
        raise BuildError('harness run', err[-2000:])
    res = {}
    for l in out.splitlines():
        if l.startswith('{'):
            r = json.loads(l); res[r["id"]] = r
    return res

def selfcheck_of(case, trace):
    fl = case["f"].split(',') if case["f"] else []
    if not ('ns' in fl and 'ne' in fl):
        return 'pass1'   # irrelevant: the model ignores it unless both anchors are disabled
    stages = dict((s, t) for s, t in trace)
    names = [s for s, _ in trace]
    if 'selfcheck' not in names:
        return 'skipped'
    if 'check1' not in names:
        return 'pass1'
    if 'check2' not in names:
        return 'pass2'
    return 'fail'

def cps_field(s):
    return ",".join(str(c) for c in s)

def driver_line(case, r, with_impl=True):
    trace = r.get("trace", [])
    odb = ";".join("%s|%s|%s|%s" % (cps_field(e["s"]), cps_field(e["lower"]), ",".join(str(x) for x in e["seg"]),
                                     "".join('1' if b else '0' for b in e["cat"])) for e in r["oracle"])
    tcs = ";".join(cps_field(t) for t in case["tcs"]) if case["tcs"] else "-"
    # a single empty test case and an empty list must stay distinguishable
    if case["tcs"] and all(len(t) == 0 for t in case["tcs"]):
        tcs = ";" * (len(case["tcs"]) - 1)
    fields = [str(case["id"]), case["f"], str(case.get("mr", 1)), str(case.get("ms", 1)), selfcheck_of(case, trace), tcs, odb]
    if with_impl:
        seen = set()
        for s, t in trace:
            if s not in seen:      # first occurrence = the minimised pass
                seen.add(s); fields.append("%s=%s" % (s, t))
    return "\t".join(fields)

def model_out_with_sc(case, r, sc):
    """the model's final output for `case` when the self-check outcome is `sc` (oracle data taken from the implementation run)"""
    line = driver_line(case, r, with_impl=False).split('\t')
    line[4] = sc
    p = subprocess.run([DRIVER, os.path.join(BUILD, 'engine_d.txt')], input=('\t'.join(line) + '\n').encode(), capture_output=True)
    for l in p.stdout.decode('utf-8', 'replace').splitlines():
        parts = l.split('\t')
        if len(parts) == 3 and parts[1] == 'out':
            return parts[2]
    return None

def run_model(cases, impl):
    lines = [driver_line(c, impl[c["id"]]) for c in cases if c["id"] in impl and "harness_panic" not in impl[c["id"]]]
    # shard over 16 driver processes
    n = 16
    shards = [lines[i::n] for i in range(n)]
    procs = []
    for sh_ in shards:
        if not sh_:
            continue
        p = subprocess.Popen([DRIVER, os.path.join(BUILD, 'engine_d.txt')], stdin=subprocess.PIPE, stdout=subprocess.PIPE)
        procs.append((p, ("\n".join(sh_) + "\n").encode()))
    import threading
    outs = [None] * len(procs)
    def work(k):
        p, data = procs[k]
        outs[k] = p.communicate(data)[0].decode('utf-8', 'replace')
    ths = [threading.Thread(target=work, args=(k,)) for k in range(len(procs))]
    for t in ths: t.start()
    for t in ths: t.join()
    res = {}
    for o in outs:
        for l in o.splitlines():
            parts = l.split('\t')
            if len(parts) == 3:
                res.setdefault(int(parts[0]), {})[parts[1]] = parts[2]
    return res

def _cps(field):
    return [int(x) for x in field.strip('[]').split(',') if x.strip()]

SC_STATS = {'compared': 0, 'agree': 0, 'engine_inconsistency': 0, 'unexplained': 0, 'examples': []}

def selfcheck_tie(case, r, m):
    fl = case["f"].split(',') if case["f"] else []
    if not ('ns' in fl and 'ne' in fl) or m.get('sc_ref') in (None, '!ERR') or r.get('panic') is not None:
        return None
    trace = r.get('trace', [])
    if any(s_ == 'selfcheck_impossible' for s_, _ in trace):
        return None        # compile failure measured by the hook (surrogates, size limit): admissibility covers it
    rec = selfcheck_of(case, trace)
    SC_STATS['compared'] += 1
    if m['sc_ref'] == rec:
        SC_STATS['agree'] += 1
        return ('agree',)
    norm = None
    for s_, t_ in trace:
        if s_ == 'norm':
            norm = t_; break
    if norm is None or m.get('cand1') in (None, '!ERR') or m.get('cand2') in (None, '!ERR'):
        return None
    tcs = [_cps(x) for x in norm.split(';')] if norm != '' else [[]]
    def verdict(cand):
        rc, out, err = sh([GREXV, 'match'], inp=(json.dumps({'p': _cps(cand), 'hs': tcs}) + '\n').encode())
        res = [json.loads(l) for l in out.splitlines() if l.startswith('{')]
        if not res or any(x is None for x in res[0]['meta_count']):
            return '-', None
        return ('1' if all(x == 1 for x in res[0]['meta_count']) else '0'), res[0]
    v1, d1 = verdict(m['cand1']); v2, d2 = verdict(m['cand2'])
    rc, out, err = sh([DRIVER, '--scdecide'], inp=('%d %s %s\n' % (len(tcs), v1, v2)).encode())
    explained = out.strip()
    ex = {'case': {k: case[k] for k in ('tcs', 'f', 'mr', 'ms') if k in case}, 'model_sc_ref': m['sc_ref'], 'implementation': rec,
          'optimised_engine_verdicts': [v1, v2], 'decision_from_those': explained,
          'counts': [d1 and {'meta': d1['meta_count'], 'pikevm': d1.get('vm_count')}, d2 and {'meta': d2['meta_count'], 'pikevm': d2.get('vm_count')}]}
    if explained == rec:
        SC_STATS['engine_inconsistency'] += 1
        if len(SC_STATS['examples']) < 5: SC_STATS['examples'].append(ex)
        return ('inconsistency', ex)
    SC_STATS['unexplained'] += 1
    return ('unexplained', 'self-check outcome %s' % rec,
            'model computes %s; the optimised engine\'s own verdicts %s/%s on the model\'s candidates give %s (Model/SelfCheck.sc_decide)' % (m['sc_ref'], v1, v2, explained))

STAGES = ['norm', 'clusters_g', 'clusters_k', 'clusters_r', 'trie', 'min', 'expr', 'final', 'out']
LOCAL = ['clusters_g', 'clusters_k', 'clusters_r', 'trie', 'min', 'expr', 'out']

def ser_cps(cps):
    return "[" + ",".join(str(c) for c in cps) + "]"

def compare(case, r, m):
    """returns (end_to_end_diffs, local_diffs): lists of (stage, impl, model)"""
    e2e, loc = [], []
    if r.get("panic") is not None:
        # the model must also fail (None) at or before the output
        if m.get("out") != "!ERR":
            e2e.append(("panic", r["panic"][:200], m.get("out")))
        return e2e, loc
    impl = {}
    for s, t in r["trace"]:
        impl.setdefault(s, t)
    impl["out"] = ser_cps(r["out"])
    for s in STAGES:
        if s in impl and impl[s] != m.get(s):
            e2e.append((s, impl[s], m.get(s)))
    # a skipped self-check is admissible with surrogate escapes (the model's sc_admissible) and when the candidate does not
    # compile at all (size limit of the regex crate, fix F15) — the latter is measured by the hook's own compile attempt,
    # not taken from the control flow under test
    if m.get('sc_ok') == '0' and not any(s_ == 'selfcheck_impossible' for s_, _ in r.get('trace', [])):
        loc.append(('selfcheck', 'self-check outcome %s' % selfcheck_of(case, r.get('trace', [])), 'not admissible for this configuration (Pipeline.sc_admissible)'))
    # F inside the model (Model/SelfCheck.v): the self-check outcome COMPUTED by the model from the reference semantics of
    # the regex crate against the outcome the implementation took. Where they differ the implementation's decision must
    # be explained by the verdicts of ITS engine (the optimised one, known to deviate on rare patterns) on the model's
    # candidates, through the model's control flow (sc_decide) — then it is an engine inconsistency, logged; otherwise
    # the tie is broken at the self-check.
    sv = selfcheck_tie(case, r, m)
    if sv is not None and sv[0] == 'unexplained':
        loc.append(('selfcheck', sv[1], sv[2]))
    for s in LOCAL:
        k = "L:" + s
        if s in impl and k in m and impl[s] != m[k]:
            loc.append((s, impl[s], m[k]))
    return e2e, loc
