"""Writes coq/gen/OracleTables.v (tables measured from the linked crates and std by `grexv dump`)
and build/engine_d.txt (the same \\d table for the OCaml driver)."""
import os, json
from runner import BUILD, COQ

def coq_ranges(name, rs):
    return 'Definition %s : list (N * N) :=\n  [%s].\n\n' % (name, ';\n   '.join('(%d%%N, %d%%N)' % (a, b) for a, b in rs))

def write_if_changed(path, text):
    try:
        if open(path, encoding='utf-8').read() == text:
            return False
    except FileNotFoundError:
        pass
    os.makedirs(os.path.dirname(path), exist_ok=True)
    open(path, 'w', encoding='utf-8').write(text)
    return True

def skew_set(d):
    fold = {c: set(m) for c, m in d['fold']}
    out = []
    for c, l in d['lower_single']:
        if l not in fold.get(c, {c}):
            out.append(c)
    return out

def generate(d):
    out = '(* GENERATED from `grexv dump` (regex-syntax classes and case folding, std lower-casing and is_whitespace, unic-ucd-category) - do not edit. *)\n'
    out += 'From Coq Require Import List NArith Bool.\nImport ListNotations.\n\n'
    for k in ['engine_d', 'engine_w', 'engine_s', 'engine_D', 'engine_W', 'engine_S', 'is_whitespace', 'mark_or_other',
              'grex_d', 'grex_w', 'grex_s']:
        name = {'is_whitespace': 'std_whitespace', 'grex_d': 'compiled_is_digit', 'grex_w': 'compiled_is_word', 'grex_s': 'compiled_is_space'}.get(k, k)
        out += coq_ranges(name, d[k])
    out += '(* char::to_lowercase: code points whose lower-casing is a single different code point *)\n'
    out += 'Definition lower_single : list (N * N) :=\n  [%s].\n\n' % ';\n   '.join('(%d%%N, %d%%N)' % (a, b) for a, b in d['lower_single'])
    out += 'Definition lower_multi : list N := [%s].\n\n' % '; '.join('%d%%N' % c for c in d['lower_multi'])
    out += '(* regex-syntax simple case folding: (c, members of the class of (?i:c)) for classes with more than one member *)\n'
    out += 'Definition fold_classes : list (N * list N) :=\n  [%s].\n\n' % ';\n   '.join('(%d%%N, [%s])' % (c, '; '.join('%d%%N' % m for m in ms)) for c, ms in d['fold'])
    out += '(* code points whose single-code-point lower-casing is outside their fold class (version skew std / regex crate) *)\n'
    out += 'Definition skew_set : list N := [%s].\n' % '; '.join('%d%%N' % c for c in skew_set(d))
    changed = write_if_changed(os.path.join(COQ, 'gen', 'OracleTables.v'), out)
    write_if_changed(os.path.join(BUILD, 'engine_d.txt'), "".join("%d %d\n" % (a, b) for a, b in d['engine_d']))
    for k, fn in [('engine_d', 'engine_d.txt'), ('engine_w', 'engine_w.txt'), ('engine_s', 'engine_s.txt'),
                  ('engine_D', 'engine_neg_d.txt'), ('engine_W', 'engine_neg_w.txt'), ('engine_S', 'engine_neg_s.txt')]:
        write_if_changed(os.path.join(BUILD, fn), "".join("%d %d\n" % (a, b) for a, b in d[k]))
    write_if_changed(os.path.join(BUILD, 'std_ws.txt'), "".join("%d %d\n" % (a, b) for a, b in d['is_whitespace']))
    return changed
