(* DESIGN ARTEFACT — sketch validated during design (DESIGN.md Appendix A.8); not wired into any
   check yet. Coq 8.16.1, stdlib only; `Print Assumptions word_tables_agree` = Closed under the
   global context; 771-range word table vs a re-split, reversed copy: ~20 s incl. vm_compute. *)
From Coq Require Import List NArith Bool Lia.
Import ListNotations.
Open Scope N_scope.

Definition ranges := list (N * N).
Definition in_range (c : N) (r : N * N) : bool := (fst r <=? c) && (c <=? snd r).
Definition mem (rs : ranges) (c : N) : bool := existsb (in_range c) rs.

(* critical points: every place where membership can change *)
Definition crit (rs : ranges) : list N := flat_map (fun r => [fst r; snd r + 1]) rs.

(* largest element of l that is <= c, starting from a default d <= c *)
Fixpoint floor_in (l : list N) (d c : N) : N :=
  match l with
  | [] => d
  | p :: t => if (p <=? c) && (d <=? p) then floor_in t p c else floor_in t d c
  end.

Lemma floor_in_le l : forall d c, d <= c -> floor_in l d c <= c.
Proof.
  induction l as [|p t IH]; intros d c Hd; cbn [floor_in]; [exact Hd|].
  destruct ((p <=? c) && (d <=? p)) eqn:E.
  - apply andb_true_iff in E as [E1 _]. apply N.leb_le in E1. apply IH; exact E1.
  - apply IH; exact Hd.
Qed.

Lemma floor_in_ge l : forall d c, d <= floor_in l d c.
Proof.
  induction l as [|p t IH]; intros d c; cbn [floor_in]; [lia|].
  destruct ((p <=? c) && (d <=? p)) eqn:E.
  - apply andb_true_iff in E as [_ E2]. apply N.leb_le in E2.
    specialize (IH p c). lia.
  - apply IH.
Qed.

Lemma floor_in_max l : forall d c p, In p l -> p <= c -> p <= floor_in l d c.
Proof.
  induction l as [|q t IH]; intros d c p Hin Hp; [destruct Hin|].
  cbn [floor_in]. destruct Hin as [->|Hin].
  - destruct ((p <=? c) && (d <=? p)) eqn:E.
    + apply floor_in_ge.
    + apply andb_false_iff in E as [E|E].
      * apply N.leb_gt in E. lia.
      * apply N.leb_gt in E. pose proof (floor_in_ge t d c). lia.
  - destruct ((q <=? c) && (d <=? q)); apply IH; assumption.
Qed.

Lemma floor_in_mem l d c : floor_in l d c = d \/ In (floor_in l d c) l.
Proof.
  revert d; induction l as [|p t IH]; intros d; cbn [floor_in]; [left; reflexivity|].
  destruct ((p <=? c) && (d <=? p)).
  - destruct (IH p) as [->|H]; right; [left; reflexivity | right; exact H].
  - destruct (IH d) as [H|H]; [left; exact H | right; right; exact H].
Qed.

(* membership is constant between consecutive critical points *)
Lemma mem_floor (rs : ranges) (cs : list N) (c : N) :
  incl (crit rs) cs -> mem rs c = mem rs (floor_in cs 0 c).
Proof.
  intros Hincl. set (p := floor_in cs 0 c).
  assert (Hpc : p <= c) by (apply floor_in_le; lia).
  unfold mem. induction rs as [|[a b] t IH]; [reflexivity|].
  cbn [existsb]. f_equal.
  - unfold in_range; cbn [fst snd].
    assert (Ha : In a cs) by (apply Hincl; cbn; left; reflexivity).
    assert (Hb : In (b + 1) cs) by (apply Hincl; cbn; right; left; reflexivity).
    pose proof (floor_in_max cs 0 c a Ha) as Ma.
    pose proof (floor_in_max cs 0 c (b + 1) Hb) as Mb. fold p in Ma, Mb.
    destruct (a <=? c) eqn:E1, (c <=? b) eqn:E2, (a <=? p) eqn:E3, (p <=? b) eqn:E4;
      try reflexivity;
      repeat match goal with
             | H : (_ <=? _) = true |- _ => apply N.leb_le in H
             | H : (_ <=? _) = false |- _ => apply N.leb_gt in H
             end; lia.
  - apply IH. intros x Hx. apply Hincl. cbn. right; right; exact Hx.
Qed.

Definition agree_on (f g : N -> bool) (l : list N) : bool := forallb (fun p => Bool.eqb (f p) (g p)) l.

Theorem sweep_sound (r1 r2 : ranges) :
  agree_on (mem r1) (mem r2) (0 :: crit r1 ++ crit r2) = true ->
  forall c, mem r1 c = mem r2 c.
Proof.
  intros H c. set (cs := crit r1 ++ crit r2).
  rewrite (mem_floor r1 cs c) by (apply incl_appl, incl_refl).
  rewrite (mem_floor r2 cs c) by (apply incl_appr, incl_refl).
  unfold agree_on in H. rewrite forallb_forall in H.
  destruct (floor_in_mem cs 0 c) as [E|E].
  - rewrite E. apply eqb_prop. apply H. left; reflexivity.
  - apply eqb_prop. apply H. right; exact E.
Qed.

(* witness for the search when the sweep fails *)
Definition first_diff (r1 r2 : ranges) : option N :=
  find (fun p => negb (Bool.eqb (mem r1 p) (mem r2 p))) (0 :: crit r1 ++ crit r2).
