# DESIGN ARTEFACT — not part of the verification machinery, not run by any check.
# Throw-away reference semantics written while designing (DESIGN.md, Appendix A.1). It reproduced
# build() string-for-string against the unchanged library on 45 000 random cases: 33 000 in
# default / repetition / capturing-group modes and 12 000 over the whole flag lattice (verbose,
# colour, escape, surrogates, case-insensitive, six class flags, both anchor flags incl. the
# self-check/fallback path, thresholds 1..3) — the only disagreement (1 case) is an input on which
# the pinned regex crate's optimised search misses a match that Python's `re` and the crate's own
# PikeVM find (Appendix A.6). Restriction: one code point per grapheme (no G-stage split rule).
# It pins down the iteration orders (petgraph newest-first, Dfs stack order, stable sorts), the
# verbose/colour rendering and the fallback control flow that the Gallina model must reproduce.
# The comparison runner it shells out to (/tmp/proto/h) was a scratch binary and is gone.
import sys, itertools, functools

class Cfg:
    def __init__(s, rep=False, mr=1, ms=1, capture=False, escape=False):
        s.rep=rep; s.mr=mr; s.ms=ms; s.capture=capture; s.escape=escape

# ---------- graphemes
class G:
    __slots__=('chars','reps','min','max')
    def __init__(s, chars, mn=1, mx=1, reps=None):
        s.chars=list(chars); s.reps=list(reps or []); s.min=mn; s.max=mx
    def value(s): return ''.join(s.chars)
    def key(s): return (tuple(s.chars), tuple(r.key() for r in s.reps), s.min, s.max)
    def __eq__(s,o): return s.key()==o.key()
    def __hash__(s): return hash(s.key())
    def clone(s): return G(s.chars, s.min, s.max, [r.clone() for r in s.reps])
    def __repr__(s): return f"G({s.chars},{s.min},{s.max},{s.reps})"

def gfrom(c): return G([c])

# ---------- R: repetition conversion (cluster.rs)
def convert_repetitions_top(gs, cfg):
    out=[]
    convert_repetitions(gs, out, cfg)
    return out if out else gs

def convert_repetitions(gs, out, cfg):
    m = collect_repeated_substrings(gs)
    ranges = create_ranges(m, cfg)
    co = coalesce(ranges)
    replace_with_reps(co, gs, out, cfg)

def collect_repeated_substrings(gs):
    m = {}
    n=len(gs)
    for i in range(n):
        suffix = gs[i:]
        for j in range(1, n//2+1):
            if len(suffix) >= j:
                prefix = tuple(g.value() for g in suffix[:j])
                m.setdefault(prefix, []).append(i)
    return m

def it_coalesce(seq, f):
    seq=list(seq)
    if not seq: return []
    res=[]; acc=seq[0]
    for nxt in seq[1:]:
        r=f(acc,nxt)
        if r[0]: acc=r[1]
        else: res.append(r[1]); acc=r[2]
    res.append(acc)
    return res

def create_ranges(m, cfg):
    items=[(p,idx) for p,idx in m.items() if all(b-a>=len(p) for a,b in zip(idx,idx[1:]))]
    items.sort(key=lambda t: len(t[0]))   # stable on hash order (irrelevant: see design)
    items.reverse()
    reps=[]
    for plen, group in itertools.groupby(items, key=lambda t: len(t[0])):
        for prefix, idx in sorted(group, key=lambda t: t[1][0]):
            rs=[(i,i+plen) for i in idx]
            rs=it_coalesce(rs, lambda x,y: (True,(x[0],y[1])) if x[1]==y[0] else (False,x,y))
            for r in rs:
                count=(r[1]-r[0])//plen
                if count>cfg.mr: reps.append((r,prefix))
    return reps

def coalesce(ranges):
    def cmpf(a,b):
        (fs,fe),_=a; (ss,se),_=b
        if se!=fe: return -1 if se<fe else 1   # second.end.cmp(first.end): descending end
        return -1 if fs<ss else (1 if fs>ss else 0)
    srt=sorted(ranges, key=functools.cmp_to_key(cmpf))
    def f(a,b):
        (fs,fe),_=a; (ss,se),_=b
        contains=lambda x: fs<=x<fe
        if (contains(ss) or contains(se)) and se!=fs: return (True,a)
        return (False,a,b)
    return it_coalesce(srt,f)

def replace_with_reps(co, gs, out, cfg):
    if not co: return
    out.extend(g.clone() for g in gs)
    for (s,e),sub in co:
        if e>len(out): break
        count=(e-s)//len(sub)
        if len(sub)<cfg.ms: continue
        out[s:e]=[G(list(sub),count,count)]
    for ng in out:
        convert_repetitions([gfrom(c) for c in ng.chars], ng.reps, cfg)

# ---------- configuration (config.rs)
class Cfg:
    def __init__(s, rep=False, mr=1, ms=1, capture=False, escape=False, surrogates=False, verbose=False,
                 colour=False, ci=False, no_start=False, no_end=False, d=False, w=False, sp=False, D=False, W=False, S=False):
        s.rep=rep; s.mr=mr; s.ms=ms; s.capture=capture; s.escape=escape; s.surrogates=surrogates
        s.verbose=verbose; s.colour=colour; s.ci=ci; s.no_start=no_start; s.no_end=no_end
        s.d=d; s.w=w; s.sp=sp; s.D=D; s.W=W; s.S=S
    def class_feature(s): return s.d or s.D or s.sp or s.S or s.w or s.W or s.ci or s.capture

# ---------- tables (unicode_tables/*.rs), read from the source like the translator will
import re as _re
def _load(name):
    src=open('/repo/src/unicode_tables/%s.rs'%name).read()
    body=src[src.index('&['):]
    out=[]
    def ch(t):
        if t.startswith('\\u{'): return int(t[3:-1],16)
        return ord({'\\t':'\t','\\r':'\r','\\n':'\n',"\\'":"'",'\\\\':'\\'}.get(t,t))
    for a,b in _re.findall(r"\('((?:\\u\{[0-9a-f]+\})|(?:\\.)|[^'\\])', '((?:\\u\{[0-9a-f]+\})|(?:\\.)|[^'\\])'\)", body):
        out.append((ch(a),ch(b)))
    return out
DEC=_load('decimal'); WS=_load('space'); WORD=_load('word')
def in_tab(t,c): o=ord(c); return any(a<=o<=b for a,b in t)
def convert_classes(gs,cfg):
    for g in gs:
        g.chars=[''.join(
            '\\d' if cfg.d and in_tab(DEC,c) else
            '\\w' if cfg.w and in_tab(WORD,c) else
            '\\s' if cfg.sp and in_tab(WS,c) else
            '\\D' if cfg.D and not in_tab(DEC,c) else
            '\\W' if cfg.W and not in_tab(WORD,c) else
            '\\S' if cfg.S and not in_tab(WS,c) else c for c in s) for s in g.chars]

# ---------- components (component.rs)
def col(code,v,cfg): return "\x1b[%sm%s\x1b[0m"%(code,v) if cfg.colour else v
def c_group(expr,cfg,final_break):
    lp=col("1;32","(" if cfg.capture else "(?:",cfg); rp=col("1;32",")",cfg)
    if cfg.verbose: return "\n%s\n%s\n%s"%(lp,expr,rp)+("\n" if final_break else "")
    return lp+expr+rp
def c_quant(q,cfg): return col("1;35",q,cfg)+("\n" if cfg.verbose else "")
def c_rep(n,cfg,verbose): return col("104;37","{%d}"%n,cfg)+("\n" if verbose else "")
def c_range(m,n,cfg,verbose): return col("104;37","{%d,%d}"%(m,n),cfg)+("\n" if verbose else "")

# ---------- printing of graphemes (grapheme.rs)
CHARS_TO_ESCAPE=["(", ")", "[", "]", "{", "}", "+", "*", "-", ".", "?", "|", "^", "$"]
CHAR_CLASSES=["\\d","\\s","\\w","\\D","\\S","\\W"]
def escape_cp(c, surr=False):
    o=ord(c)
    if o<128: return c
    if surr and 0x10000<=o<0x10ffff:          # exclusive upper bound, as in the code (F4)
        o-=0x10000
        return "\\u{%x}\\u{%x}"%(0xd800+(o>>10),0xdc00+(o&0x3ff))
    return "\\u{%x}"%o
def escape_regexp_symbols(g, cfg):
    for i in range(len(g.chars)):
        ch=g.chars[i]
        for e in CHARS_TO_ESCAPE: ch=ch.replace(e,"\\"+e)
        ch=ch.replace("\n","\\n").replace("\r","\\r").replace("\t","\\t")
        if ch=="\\": ch="\\\\"
        g.chars[i]=ch
    if cfg.escape:
        g.chars=[''.join(escape_cp(c,cfg.surrogates) for c in s) for s in g.chars]
def g_char_count(g, escaped):
    if escaped: return len(''.join(''.join(escape_cp(c,False) for c in s) for s in g.chars))
    return sum(len(s) for s in g.chars)
def g_str(g, cfg):
    single = g_char_count(g,False)==1 or (len(g.chars)==1 and g.chars[0].count("\\")==1)
    is_range=g.min<g.max; is_rep=g.min>1
    v = g.value() if not g.reps else ''.join(g_str(r,cfg) for r in g.reps)
    if cfg.colour and v in CHAR_CLASSES: v=col("103;30",v,cfg)
    if not is_range and is_rep and single: return v+c_rep(g.min,cfg,False)
    if not is_range and is_rep: return c_group(v,cfg,False)+c_rep(g.min,cfg,cfg.verbose)
    if is_range and single: return v+c_range(g.min,g.max,cfg,False)
    if is_range: return c_group(v,cfg,False)+c_range(g.min,g.max,cfg,cfg.verbose)
    return v
def group(s,cfg): return c_group(s,cfg,False)
# ---------- T: trie (dfa.rs) on a petgraph-like graph
class Graph:
    def __init__(s): s.n=0; s.edges=[]   # edges: [src,dst,label]; insertion order
    def add_node(s): s.n+=1; return s.n-1
    def add_edge(s,a,b,w): s.edges.append([a,b,w])
    def out_edges(s,a): return [e for e in reversed(s.edges) if e[0]==a]      # newest first
    def neighbors(s,a): return [e[1] for e in s.out_edges(a)]
    def find_edge(s,a,b):
        for e in s.out_edges(a):
            if e[1]==b: return e
    def parents(s,b): return [e for e in reversed(s.edges) if e[1]==b]

class Dfa:
    def __init__(s,cfg): s.g=Graph(); s.init=s.g.add_node(); s.finals=set(); s.alphabet=set(); s.cfg=cfg
    def insert(s, cluster):
        cur=s.init
        for gr in cluster:
            s.alphabet.add(gr)
            nxt=s.find_next_state(cur,gr)
            if nxt is None:
                nxt=s.g.add_node(); s.g.add_edge(cur,nxt,gr.clone())
            cur=nxt
        s.finals.add(cur)
    def find_next_state(s,cur,gr):
        for nxt in s.g.neighbors(cur):
            e=s.g.find_edge(cur,nxt); cg=e[2]
            if cg.value()!=gr.value(): continue
            if cg.max==gr.max-1:
                e[2]=G(gr.chars, min(cg.min,gr.min), max(cg.max,gr.max))
                return nxt
            elif cg.max==gr.max: return nxt
        return None
    def parent_states(s,a,label):
        x=set()
        for st in a:
            for e in s.g.parents(st):
                gr=e[2]
                if gr.value()==label.value() and (gr.max==label.max or gr.min==label.min):
                    x.add(e[0]); break
        return x
    def minimize(s):
        allst=set(range(s.g.n))
        nonfinal=frozenset(allst-s.finals); final=frozenset(s.finals)
        p=[nonfinal,final]; w=list(p)
        alphabet=sorted(s.alphabet, key=lambda g:g.key())
        while w:
            a=w.pop(0)
            for label in alphabet:
                x=s.parent_states(a,label)
                repl=[]; need=True; start=0
                while need:
                    found=False
                    for idx in range(start,len(p)):
                        y=p[idx]
                        if not (x&y) or not (y-x):
                            need=False; continue
                        i=frozenset(x&y); d=frozenset(y-x)
                        need=True; start=idx; repl.append((y,i,d)); found=True
                        break
                    if not found and start>=len(p): need=False
                    if need:
                        _,i,d=repl[-1]
                        p[start:start+1]=[i,d]
                for y,i,d in repl:
                    if y in w:
                        w.remove(y); w.append(i); w.append(d)
                    elif len(i)<=len(d): w.append(i)
                    else: w.append(d)
        s.recreate([b for b in p if b])
    def recreate(s,p):
        g=Graph(); finals=set(); mp={}; newinit=None
        for blk in p:
            ns=g.add_node()
            for o in blk:
                if o==s.init: newinit=ns
                mp[o]=ns
        for blk in p:
            rep=min(blk)
            for tgt in s.g.neighbors(rep):
                e=s.g.find_edge(rep,tgt)
                g.add_edge(mp[rep],mp[tgt],e[2].clone())
                if tgt in s.finals: finals.add(mp[tgt])
        s.init=newinit; s.finals=finals; s.g=g
    def dfs(s):
        stack=[s.init]; disc=set(); order=[]
        while stack:
            n=stack.pop()
            if n not in disc:
                disc.add(n)
                for succ in s.g.neighbors(n):
                    if succ not in disc: stack.append(succ)
                order.append(n)
        return order

# ---------- E: expressions (expression.rs)
def lit(gs): return ('lit',[g.clone() for g in gs])
def is_empty(e): return e[0]=='lit' and not e[1]
def e_eq(a,b): return ekey(a)==ekey(b)
def ekey(e):
    t=e[0]
    if t=='lit': return ('lit',tuple(g.key() for g in e[1]))
    if t=='cc': return ('cc',tuple(sorted(e[1])))
    if t=='cat': return ('cat',ekey(e[1]),ekey(e[2]))
    if t=='alt': return ('alt',tuple(ekey(o) for o in e[1]))
    if t=='rep': return ('rep',ekey(e[1]),e[2])
def e_len(e):
    t=e[0]
    if t=='alt': return e_len(e[1][0])
    if t=='cc': return 1
    if t=='cat': return e_len(e[1])+e_len(e[2])
    if t=='lit': return len(e[1])
    if t=='rep': return e_len(e[1])
def prec(e): return {'alt':1,'cc':1,'cat':2,'lit':2,'rep':3}[e[0]]
def single_cp(e,cfg):
    if e[0]=='cc': return True
    if e[0]=='lit': return sum(g_char_count(g,cfg.escape) for g in e[1])==1 and e[1][0].max==1
    return False
def new_alt(exprs):
    opts=[]
    def flat(es):
        for o in es:
            if o[0]=='alt': flat(o[1])
            else: opts.append(o)
    flat(exprs)
    opts.sort(key=lambda o:-e_len(o))
    return ('alt',opts)
def value(e,sub):
    if e[0]=='cat':
        if sub=='P': return value(e[1],None) if True else None
        if sub=='S': return value(e[2],None)
        return None
    if e[0]=='lit': return e[1]
    return None
def value_top(e,sub):
    if e[0]=='cat':
        inner = e[1] if sub=='P' else e[2]
        return inner[1] if inner[0]=='lit' else None
    if e[0]=='lit': return e[1]
    return None
def remove_sub(e,sub,n):
    if e[0]=='cat':
        if sub=='P' and e[1][0]=='lit': return ('cat',remove_sub(e[1],sub,n),e[2])
        if sub=='S' and e[2][0]=='lit': return ('cat',e[1],remove_sub(e[2],sub,n))
        return e
    if e[0]=='lit':
        return ('lit', e[1][n:]) if sub=='P' else ('lit', e[1][:len(e[1])-n])
    return e
def common(a,b,sub):
    ga=list(value_top(a,sub) or []); gb=list(value_top(b,sub) or [])
    if sub=='S': ga.reverse(); gb.reverse()
    c=[]
    for x,y in zip(ga,gb):
        if x==y: c.append(x)
        else: break
    if sub=='S': c.reverse()
    return c or None
def union(a,b,cfg):
    if a is not None and b is not None:
        e1,e2=a,b
        if not e_eq(e1,e2):
            cp=common(e1,e2,'P')
            if cp: e1=remove_sub(e1,'P',len(cp)); e2=remove_sub(e2,'P',len(cp))
            cs=common(e1,e2,'S')
            if cs: e1=remove_sub(e1,'S',len(cs)); e2=remove_sub(e2,'S',len(cs))
            res=None
            if is_empty(e1): res=('rep',e2,'?')
            elif is_empty(e2): res=('rep',e1,'?')
            if res is None and e1[0]=='rep' and e1[2]=='?':
                res=('rep',new_alt([e1[1],e2]),'?')
            if res is None and e2[0]=='rep' and e2[2]=='?':
                res=('rep',new_alt([e1,e2[1]]),'?')
            if res is None and single_cp(e1,cfg) and single_cp(e2,cfg):
                def cset(e): return {e[1][0].value()[0]} if e[0]=='lit' else set(e[1])
                res=('cc',frozenset(cset(e1)|cset(e2)))
            if res is None: res=new_alt([e1,e2])
            if cp: res=('cat',lit(cp),res)
            if cs: res=('cat',res,lit(cs))
            return res
        return a
    return a if a is not None else b
def concat(a,b):
    if a is None or b is None: return None
    if is_empty(a): return b
    if is_empty(b): return a
    if a[0]=='lit' and b[0]=='lit': return lit(a[1]+b[1])
    if a[0]=='lit' and b[0]=='cat' and b[1][0]=='lit': return ('cat',lit(a[1]+b[1][1]),b[2])
    if b[0]=='lit' and a[0]=='cat' and a[2][0]=='lit': return ('cat',a[1],lit(a[2][1]+b[1]))
    return ('cat',a,b)
def star(a): return None if a is None else ('rep',a,'*')
def expr_from(dfa,cfg):
    states=dfa.dfs(); n=dfa.g.n
    A=[[None]*n for _ in range(n)]; B=[None]*n
    for i,st in enumerate(states):
        if st in dfa.finals: B[i]=lit([])
        for e in dfa.g.out_edges(st):
            l=lit([e[2]]); j=states.index(e[1])
            A[i][j]=union(A[i][j],l,cfg) if A[i][j] is not None else l
    for k in range(n-1,-1,-1):
        if A[k][k] is not None:
            B[k]=concat(star(A[k][k]),B[k])
            for j in range(k): A[k][j]=concat(star(A[k][k]),A[k][j])
        for i in range(k):
            if A[i][k] is not None:
                B[i]=union(B[i],concat(A[i][k],B[k]),cfg)
                for j in range(k): A[i][j]=union(A[i][j],concat(A[i][k],A[k][j]),cfg)
    return B[0] if n and B[0] is not None else lit([])

# ---------- P: printing (format.rs, regexp.rs Display, indent_regexp)
def cc_str(cs,cfg):
    esc=['[',']','\\','-','^','$']
    cs=sorted(cs)
    def e(c):
        if c in esc: return '\\'+c
        return {'\n':'\\n','\r':'\\r','\t':'\\t'}.get(c,c)
    def pos(c): o=ord(c); return o if o<0xD800 else o-0x800
    items=[(e(c),pos(c)) for c in cs]
    subsets=[]; sub=[]
    for (c1,p1),(c2,p2) in zip(items,items[1:]):
        if not sub: sub.append(c1)
        if p2==p1+1: sub.append(c2)
        else: subsets.append(sub); sub=[c2]
    subsets.append(sub)
    out=[]
    for s in subsets:
        if len(s)<=2: out.extend(s)
        else: out.append(s[0]+col("1;36","-",cfg)+s[-1])
    return col("1;36","[",cfg)+''.join(out)+col("1;36","]",cfg)
def e_str(e,cfg):
    t=e[0]
    if t=='alt':
        pipe=col("1;31","|",cfg)
        if cfg.verbose: pipe="\n"+pipe+"\n"
        return pipe.join(e_str(o,cfg) for o in e[1])     # option precedence is never < 1
    if t=='cc': return cc_str(e[1],cfg)
    if t=='cat':
        parts=[]
        for x in (e[1],e[2]):
            s=e_str(x,cfg)
            parts.append(c_group(s,cfg,True) if prec(x)<2 and not single_cp(x,cfg) else s)
        return parts[0]+parts[1]
    if t=='lit':
        out=[]
        for g in e[1]:
            g=g.clone()
            if g.reps:
                for r in g.reps: escape_regexp_symbols(r,cfg)
            else: escape_regexp_symbols(g,cfg)
            out.append(g_str(g,cfg))
        return ''.join(out)
    if t=='rep':
        s=e_str(e[1],cfg)
        if prec(e[1])<3 and not single_cp(e[1],cfg): return c_group(s,cfg,False)+c_quant(e[2],cfg)
        return s+c_quant(e[2],cfg)
VERBOSE_WS=['\xa0','\u2000','\u2001','\u2002','\u2003','\u2004','\u205f','\x85','\u1680','\u2005','\u2006','\u2007','\u2008','\u2009','\u200a','\u2028','\u2029','\u202f','\u3000']
def regexp_str(ast,cfg):
    if cfg.ci and cfg.verbose: flag=col("40;93","(?ix)",cfg)+"\n"
    elif cfg.ci: flag=col("40;93","(?i)",cfg)
    elif cfg.verbose: flag=col("40;93","(?x)",cfg)+"\n"
    else: flag=""
    caret="" if cfg.no_start else col("1;33","^",cfg)+("\n" if cfg.verbose else "")
    dollar="" if cfg.no_end else ("\n" if cfg.verbose else "")+col("1;33","$",cfg)
    body=e_str(ast,cfg)
    if ast[0]=='alt': body=c_group(body,cfg,False)
    r=flag+caret+body+dollar
    r=r.replace('\x0b','\\v').replace('\x0c','\\f')
    if cfg.verbose:
        r=r.replace('#','\\#')
        for c in VERBOSE_WS: r=r.replace(c,'\\s')
        r=r.replace(' ','\\ ')
        r=indent(r,cfg)
    return r
def rust_lines(s):
    ls=s.split('\n')
    if ls and ls[-1]=='': ls.pop()
    return [l[:-1] if l.endswith('\r') else l for l in ls]
def indent(r,cfg):
    out=[]; lvl=0
    for i,line in enumerate(rust_lines(r)):
        if i==1 and cfg.no_start: lvl+=1
        if line=='': continue
        coloured=line.startswith("\x1b[")
        if lvl>0 and ((coloured and ('$' in line or ')' in line)) or (line=="$" or line.startswith(')'))): lvl-=1
        out.append("  "*lvl+line)
        if (coloured and ('^' in line or (i>0 and '(' in line))) or (line=="^" or (i>0 and line.startswith('('))): lvl+=1
    return "\n".join(out)

# ---------- F: self-check and fallbacks (regexp.rs RegExp::from); Python's re stands in for the regex crate
SGR=_re.compile("\x1b\\[(?:\\d+;\\d+|0)m")
def to_py(p): return _re.sub(r"\\u\{([0-9a-f]+)\}", lambda m: "\\U%08x"%int(m.group(1),16), p)
def compile_expr(ast,cfg,strip_nl=False):
    s=e_str(ast,cfg)
    if cfg.colour: s=SGR.sub("",s)
    if strip_nl: s=s.replace('\n','')
    return _re.compile(to_py(s))
def count_matches(pat,s):          # regex crate find_iter: an empty match may not start where the last match ended
    pos=0; last=None; n=0
    while pos<=len(s):
        m=pat.search(s,pos)
        if not m: break
        if m.start()==m.end() and last==m.end(): pos=m.end()+1; continue
        n+=1; last=m.end(); pos=m.end()
    return n
def all_matched(pat,tcs): return all(count_matches(pat,t)==1 for t in tcs)
def rotate(e):
    def rot(a): a[1].insert(0,a[1].pop())
    if e[0]=='alt': rot(e)
    elif e[0]=='cat':
        if e[1][0]=='alt': rot(e[1])
        elif e[2][0]=='alt': rot(e[2])
def build(tcs,cfg,segs=None):
    if cfg.ci: tcs=[(t.lower() if len(t.lower())==len(t) else t) for t in tcs]
    order=sorted(set(tcs)); order.sort(key=lambda s:(len(s.encode()),s))
    clusters=[]
    for t in order:
        gs=[gfrom(c) for c in t]          # one code point per grapheme (alphabet restriction of this prototype)
        if cfg.class_feature(): convert_classes(gs,cfg)
        if cfg.rep: gs=convert_repetitions_top(gs,cfg)
        clusters.append(gs)
    d=Dfa(cfg)
    for c in clusters: d.insert(c)
    d.minimize()
    ast=expr_from(d,cfg)
    if cfg.no_start and cfg.no_end:
        pat=compile_expr(ast,cfg,strip_nl=cfg.verbose)
        ok=False
        for _ in range(1,len(order)):
            if all_matched(pat,order): ok=True; break
            rotate(ast)                # note: the compiled regex is NOT rebuilt after a rotation (as in the code)
        if not ok:
            d=Dfa(cfg)
            for c in clusters: d.insert(c)
            ast=expr_from(d,cfg)
            pat=compile_expr(ast,cfg)
            if not all_matched(pat,order):
                ast=new_alt([lit(c) for c in clusters])
    return regexp_str(ast,cfg)

def dec(r):
    out=[]; i=0
    while i<len(r):
        if r[i]=='\\' and i+1<len(r):
            out.append('\n' if r[i+1]=='n' else r[i+1]); i+=2
        else: out.append(r[i]); i+=1
    return ''.join(out)
if __name__=='__main__':
    import random, subprocess
    seed=int(sys.argv[1]) if len(sys.argv)>1 else 1
    n=int(sys.argv[2]) if len(sys.argv)>2 else 2000
    alpha=sys.argv[3] if len(sys.argv)>3 else "ab"
    rnd=random.Random(seed)
    cases=[]
    for _ in range(n):
        k=rnd.randint(1,6)
        base=''.join(rnd.choice(alpha) for _ in range(rnd.randint(0,3)))
        tcs=[]
        for _ in range(k):
            s=(base if rnd.random()<0.5 else '')+''.join(rnd.choice(alpha) for _ in range(rnd.randint(0 if rnd.random()<0.1 else 1,6)))
            if s and rnd.random()<0.3: s=s+s[-rnd.randint(1,len(s)):]*rnd.randint(1,3)
            tcs.append(s)
        fl={}
        for name,p in [('rep',.4),('capture',.3),('escape',.3),('verbose',.35),('colour',.25),('ci',.2),('no_start',.3),('no_end',.3),('d',.15),('w',.1),('sp',.1),('D',.05),('W',.05),('S',.05)]:
            fl[name]=rnd.random()<p
        fl['surrogates']=fl['escape'] and rnd.random()<0.4 and not (fl['no_start'] and fl['no_end'])
        fl['mr']=rnd.randint(1,3); fl['ms']=rnd.randint(1,3)
        cases.append((tcs,fl))
    def flagstr(fl):
        m={'rep':'r','capture':'g','verbose':'x','colour':'c','ci':'i','no_start':'ns','no_end':'ne','d':'d','w':'w','sp':'s','D':'D','W':'W','S':'S'}
        out=[v for k,v in m.items() if fl[k]]
        if fl['escape']: out.append('E' if fl['surrogates'] else 'e')
        out+=['mr%d'%fl['mr'],'ms%d'%fl['ms']]
        return ','.join(out)
    enc=lambda t: t.replace('\n','\\n').replace('\t','\\t')
    inp=''.join(flagstr(fl)+'\t'+'\x1f'.join(enc(t) for t in tcs)+'\n' for tcs,fl in cases)
    res=subprocess.run(['/tmp/proto/h/target/release/h'],input=inp.encode(),capture_output=True).stdout.decode().split('\n')
    bad=0; panics=0
    for (t,fl),r in zip(cases,res):
        r=r.split('\t')[0]
        if r=='PANIC': panics+=1; continue
        r=dec(r)
        try: m=build(t,Cfg(**fl))
        except Exception as ex: m='EXC %r'%ex
        if m!=r:
            bad+=1
            if bad<=6: print("DIFF",t,flagstr(fl),"\n impl ",repr(r),"\n model",repr(m))
    print("cases",n,"bad",bad,"impl panics",panics)
