# DESIGN ARTEFACT — not part of the verification machinery, not run by any check.
# Ghost-state version of the Hopcroft worklist invariant (DESIGN.md Appendix A.2), asserted at
# every loop head on 6 000 random tries (with and without the empty string): no failure.
import random, sys
from model import *
def pre(d, S, label):
    return d.parent_states(S, label)
def split_by(Y, X): return bool(Y & X) and bool(Y - X)
def check(d, p, w, ghost, alphabet, pend_labels, A_old, where):
    blocks=[b for b in p]
    for B in blocks:
        if not B: continue
        for c in alphabet:
            ck=c.key()
            if B in w: continue
            pending_self = (A_old is not None and B <= A_old and ck in pend_labels)
            if pending_self: continue
            C = ghost.get((B,ck))
            assert C is not None, (where,"no ghost",B,c)
            assert B <= C, (where,"B not in C")
            # C is union of blocks
            for Y in blocks:
                assert Y <= C or not (Y & C), (where,"C not union of blocks",Y,C)
            for Y in blocks:
                if Y and Y <= C and Y != B:
                    ok = (Y in w) or (A_old is not None and Y <= A_old and ck in pend_labels)
                    assert ok, (where,"other block neither in W nor pending",Y,B,c)
            X = pre(d, C, c)
            for Y in blocks:
                assert not split_by(Y, X), (where,"block split by (C,c)",Y,C,c)
def minimize_checked(d):
    allst=set(range(d.g.n))
    nonfinal=frozenset(allst-d.finals); final=frozenset(d.finals)
    p=[nonfinal,final]; w=list(p)
    alphabet=sorted(d.alphabet, key=lambda g:g.key())
    ghost={}
    check(d,p,w,ghost,alphabet,set(),None,"init")
    while w:
        a=w.pop(0)
        pend={c.key() for c in alphabet}
        check(d,p,w,ghost,alphabet,pend,a,"popped")
        for label in alphabet:
            x=d.parent_states(a,label)
            # compute all splits (same as code)
            repl=[]
            newp=[]
            for y in p:
                if (x&y) and (y-x):
                    i=frozenset(x&y); dd=frozenset(y-x); repl.append((y,i,dd)); newp+= [i,dd]
                else: newp.append(y)
            p=newp
            for y,i,dd in repl:
                if y in w:
                    w.remove(y); w.append(i); w.append(dd)
                else:
                    small,large=(i,dd) if len(i)<=len(dd) else (dd,i)
                    w.append(small)
                    # ghost for large inherits y's ghosts (all labels), unless y is pending-self
                    for c in alphabet:
                        ck=c.key()
                        if (y,ck) in ghost: ghost[(large,ck)]=ghost[(y,ck)]
            # label processed: subtract a from ghosts containing it, set ghosts of fragments of a
            lk=label.key(); pend.discard(lk)
            for (B,ck),C in list(ghost.items()):
                if ck==lk and a <= C and not (B <= a):
                    ghost[(B,ck)] = frozenset(C - a)
            for B in p:
                if B and B <= a and B not in w:
                    ghost[(B,lk)] = a
            check(d,p,w,ghost,alphabet,pend,a,"after label")
    # final: stable
    for B in p:
        for c in alphabet:
            X=pre(d,B,c)
            for Y in p: assert not split_by(Y,X), "not stable at end"
    return p
rnd=random.Random(int(sys.argv[1])); n=int(sys.argv[2])
for it in range(n):
    alpha="abc"[:rnd.randint(1,3)]
    tcs=set()
    for _ in range(rnd.randint(1,8)):
        tcs.add(''.join(rnd.choice(alpha) for _ in range(rnd.randint(0,5))))
    tcs=sorted(tcs); tcs.sort(key=lambda s:(len(s),s))
    d=Dfa(Cfg())
    for t in tcs: d.insert([gfrom(c) for c in t])
    minimize_checked(d)
print("ok",n)
