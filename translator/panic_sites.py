#!/usr/bin/env python3
"""panic_sites — lists every syntactic panic site (unwrap / expect / panic! / unreachable! / assert! /
slice and index expressions with a computed index) of the non-test library code and compares it with the
committed allow-list translator/panic_sites.allow, in which each site is mapped to the `None` branch (or the
totality argument) of the Coq model. C07 (`build_total`) is a theorem about the model; this audit is the part
of the tie that says the model has an explicit failure branch for every place where the code can panic.
A site is identified by (file, enclosing fn, normalised source line), not by line number."""
import os, re, sys, json
REPO = os.environ.get('GREX_REPO', '/repo')
FILES = ['builder.rs', 'cluster.rs', 'component.rs', 'config.rs', 'dfa.rs', 'expression.rs', 'format.rs', 'grapheme.rs',
         'quantifier.rs', 'regexp.rs', 'substring.rs', 'lib.rs']
PAT = re.compile(r'\.unwrap\(\)|\.expect\(|panic!|unreachable!|\bassert!\(|\bassert_eq!\(|\.remove\(|\.drain\(|\[[^\]\[]*\.\.[^\]\[]*\]|\[[a-z_][a-z_0-9]*(?:\s*[-+]\s*\w+)?\]')

def sites():
    out = []
    for f in FILES:
        path = os.path.join(REPO, 'src', f)
        if not os.path.exists(path):
            continue
        fn = '-'
        for line in open(path, encoding='utf-8'):
            if line.lstrip().startswith('#[cfg(test)]'):
                break                       # the unit-test module is the tail of the file
            t = line.strip()
            if t.startswith('//') or 'cfg(grex_verif)' in t or t.startswith('crate::verif::'):
                continue
            m = re.match(r'(?:pub(?:\(crate\))?\s+)?fn\s+(\w+)', t)
            if m:
                fn = m.group(1)
            if PAT.search(t) and not t.startswith('#['):
                out.append('%s\t%s\t%s' % (f, fn, re.sub(r'\s+', ' ', t)))
    return out

def main():
    allow_path = os.path.join(os.path.dirname(os.path.abspath(__file__)), 'panic_sites.allow')
    cur = sites()
    if '--write' in sys.argv:
        old = {}
        if os.path.exists(allow_path):
            for l in open(allow_path, encoding='utf-8'):
                if l.strip() and not l.startswith('#'):
                    k, _, note = l.rstrip('\n').rpartition('\t=> ')
                    old[k] = note
        with open(allow_path, 'w', encoding='utf-8') as fh:
            fh.write('# file <TAB> fn <TAB> source line <TAB>=> where the model accounts for it\n')
            for s in cur:
                fh.write('%s\t=> %s\n' % (s, old.get(s, 'TODO')))
        print(len(cur), 'sites written'); return 0
    allowed = []
    for l in open(allow_path, encoding='utf-8'):
        if l.strip() and not l.startswith('#'):
            allowed.append(l.rstrip('\n').rpartition('\t=> ')[0])
    from collections import Counter
    ca, cc = Counter(allowed), Counter(cur)
    new = sorted((cc - ca).elements()); gone = sorted((ca - cc).elements())
    json.dump({'sites': len(cur), 'new': new, 'gone': gone}, sys.stdout)
    return 0

if __name__ == '__main__':
    sys.exit(main())
