"""Translator for the wrapper layers: builder.rs setters, main.rs (clap attributes and the
flag -> setter list of handle_input), python.rs and wasm.rs setters and guards.
Emits coq/gen/SrcBuilder.v, SrcCli.v, SrcPython.v, SrcWasm.v. Strict recognisers: an
unrecognised shape raises TranslateError (a broken tie)."""
import re
from rs2coq import read, TranslateError, HEADER, STR_LIT, str_lit, coq_str, coq_N, coq_bool

FIELD = {
    'minimum_repetitions': 'min_rep', 'minimum_substring_length': 'min_len',
    'is_digit_converted': 'f_digit', 'is_non_digit_converted': 'f_non_digit',
    'is_space_converted': 'f_space', 'is_non_space_converted': 'f_non_space',
    'is_word_converted': 'f_word', 'is_non_word_converted': 'f_non_word',
    'is_repetition_converted': 'f_rep', 'is_case_insensitive_matching': 'f_ci',
    'is_capturing_group_enabled': 'f_cap', 'is_non_ascii_char_escaped': 'f_esc',
    'is_astral_code_point_converted_to_surrogate': 'f_sur', 'is_verbose_mode_enabled': 'f_verbose',
    'is_start_anchor_disabled': 'f_no_start', 'is_end_anchor_disabled': 'f_no_end',
    'is_output_colorized': 'f_colour',
}
MSG = {'MISSING_TEST_CASES_MESSAGE', 'MINIMUM_REPETITIONS_MESSAGE', 'MINIMUM_SUBSTRING_LENGTH_MESSAGE'}
IMPORTS = 'From Grex Require Import Base.Str Model.Config Model.Builder.\nFrom GrexGen Require Import SrcConsts.\n\n'

def strip_comments(src):
    return re.sub(r'^\s*//.*$', '', src, flags=re.M)

def fn_bodies(src, sig_re):
    """yield (match, body) for every fn whose signature matches sig_re; body by brace matching"""
    for m in re.finditer(sig_re, src):
        i = m.end()
        depth = 1
        j = i
        while depth and j < len(src):
            if src[j] == '{': depth += 1
            elif src[j] == '}': depth -= 1
            j += 1
        yield m, src[i:j - 1]

def assigns(body, prefix, arg, path):
    """parse `PREFIX.config.F = E;` statements -> [(coq_field, 'true'|'arg')]"""
    out = []
    for f, e in re.findall(r'%s\s*\.\s*config\s*\.\s*(\w+)\s*=\s*([^;]+);' % re.escape(prefix), body):
        if f not in FIELD:
            raise TranslateError('%s: unknown config field %s' % (path, f))
        e = e.strip()
        if e == 'true':
            out.append((FIELD[f], 'true'))
        elif e == 'false':
            out.append((FIELD[f], 'false'))
        elif arg and (e == arg or e == '%s as u32' % arg):
            out.append((FIELD[f], 'arg'))
        else:
            raise TranslateError('%s: unrecognised right-hand side %r' % (path, e))
    return out

def coq_updates(ups, argname):
    s = 'c'
    for f, v in ups:
        s = '(set_%s %s %s)' % (f, argname if v == 'arg' else v, s)
    return s

# ---------------------------------------------------------------- builder.rs
def parse_builder():
    src = strip_comments(read('src/builder.rs'))
    setters = []
    for m, body in fn_bodies(src, r'pub fn (\w+)\(&mut self(?:, (\w+): (\w+))?\) -> &mut Self \{'):
        name, arg, ty = m.group(1), m.group(2), m.group(3)
        guard = None
        g = re.search(r'if %s == 0 \{\s*panic!\("\{\}", (\w+)\);\s*\}' % (arg or '@'), body)
        rest = body
        if g:
            if g.group(1) not in MSG:
                raise TranslateError('builder.rs: %s panics with unknown message %s' % (name, g.group(1)))
            guard = g.group(1)
            rest = body.replace(g.group(0), '')
        ups = assigns(rest, 'self', arg, 'builder.rs ' + name)
        leftover = re.sub(r'self\s*\.\s*config\s*\.\s*\w+\s*=\s*[^;]+;', '', rest).strip()
        if leftover != 'self' or not ups:
            raise TranslateError('builder.rs: setter %s has an unrecognised body: %r' % (name, leftover[:80]))
        if ty not in (None, 'u32', 'bool'):
            raise TranslateError('builder.rs: setter %s has argument type %s' % (name, ty))
        setters.append({'name': name, 'arg': arg, 'ty': ty, 'guard': guard, 'ups': ups})
    if len(setters) < 10:
        raise TranslateError('builder.rs: only %d setters recognised' % len(setters))
    # from(): empty check; build(): RegExp::from(&mut self.test_cases, &self.config).to_string()
    if not re.search(r'if test_cases\.is_empty\(\) \{\s*panic!\("\{\}", MISSING_TEST_CASES_MESSAGE\);', src):
        raise TranslateError('builder.rs: from() no longer panics with MISSING_TEST_CASES_MESSAGE on an empty list')
    if 'config: RegExpConfig::new()' not in src:
        raise TranslateError('builder.rs: from() does not start from RegExpConfig::new()')
    if not re.search(r'pub fn build\(&mut self\) -> String \{\s*RegExp::from\(&mut self\.test_cases, &self\.config\)\.to_string\(\)\s*\}', src):
        raise TranslateError('builder.rs: build() changed')
    if '#[derive(Clone)]' not in src:
        raise TranslateError('builder.rs: RegExpBuilder is no longer #[derive(Clone)]')
    return setters

def gen_builder():
    setters = parse_builder()
    out = HEADER % 'src/builder.rs, src/config.rs' + IMPORTS
    out += 'Inductive setter :=\n'
    for s in setters:
        out += '| %s%s\n' % (s['name'], '' if not s['arg'] else ' (%s : %s)' % (s['arg'], 'N' if s['ty'] == 'u32' else 'bool'))
    out += '.\n\n(* inl = the new configuration; inr = panic with that message *)\n'
    out += 'Definition apply_setter (s : setter) (c : cfg) : cfg + list N :=\n  match s with\n'
    for s in setters:
        pat = s['name'] + (' ' + s['arg'] if s['arg'] else '')
        body = 'inl ' + coq_updates(s['ups'], s['arg'])
        if s['guard']:
            body = 'if N.eqb %s 0 then inr msg_%s else %s' % (s['arg'], s['guard'], body)
        out += '  | %s => %s\n' % (pat, body)
    out += '  end.\n\n'
    # config.rs: new() and is_char_class_feature_enabled
    cf = strip_comments(read('src/config.rs'))
    m = re.search(r'pub\(crate\) fn new\(\) -> Self \{\s*Self \{(.*?)\}\s*\}', cf, re.S)
    if not m:
        raise TranslateError('config.rs: new() not found')
    vals = dict(re.findall(r'(\w+): (\w+),', m.group(1)))
    if set(vals) != set(FIELD):
        raise TranslateError('config.rs: field list changed: %s' % sorted(set(vals) ^ set(FIELD)))
    order = ['min_rep', 'min_len', 'f_digit', 'f_non_digit', 'f_space', 'f_non_space', 'f_word', 'f_non_word', 'f_rep', 'f_ci', 'f_cap',
             'f_esc', 'f_sur', 'f_verbose', 'f_no_start', 'f_no_end', 'f_colour']
    inv = {v: k for k, v in FIELD.items()}
    out += 'Definition src_default_cfg : cfg :=\n  mkCfg %s.\n\n' % ' '.join(vals[inv[f]] if vals[inv[f]] in ('true', 'false') else '%s%%N' % vals[inv[f]] for f in order)
    m = re.search(r'fn is_char_class_feature_enabled\(&self\) -> bool \{(.*?)\}', cf, re.S)
    if not m:
        raise TranslateError('config.rs: is_char_class_feature_enabled not found')
    terms = [t.strip() for t in m.group(1).split('||')]
    fs = []
    for t in terms:
        mm = re.fullmatch(r'self\.(\w+)', t)
        if not mm or mm.group(1) not in FIELD:
            raise TranslateError('config.rs: is_char_class_feature_enabled has an unrecognised term %r' % t)
        fs.append(FIELD[mm.group(1)])
    out += 'Definition src_char_class_feature (c : cfg) : bool :=\n  %s.\n' % ' || '.join('%s c' % f for f in fs)
    return out

# ---------------------------------------------------------------- main.rs
def parse_cli():
    src = strip_comments(read('src/main.rs'))
    m = re.search(r'pub\(crate\) struct Cli \{(.*?)\n    \}', src, re.S)
    if not m:
        raise TranslateError('main.rs: struct Cli not found')
    body = m.group(1)
    fields = []
    for mm in re.finditer(r'#\[arg\(((?:.|\n)*?)\)\]\s*(\w+): ([\w<>]+),', body):
        attrs, fname, ty = mm.group(1), mm.group(2), mm.group(3)
        name = re.search(r'\bname = "([^"]+)"', attrs)
        short = None
        sm = re.search(r"\bshort = '(.)'", attrs)
        if sm:
            short = sm.group(1)
        elif re.search(r'(^|,)\s*short\s*(,|$)', attrs):
            short = (name.group(1) if name else fname)[0]
        has_long = bool(re.search(r'(^|,)\s*long\s*(,|$)', attrs))
        requires = re.search(r'\brequires = "([^"]+)"', attrs)
        conflicts = re.search(r'\bconflicts_with = "([^"]+)"', attrs)
        default = re.search(r'\bdefault_value_t = (\d+)', attrs)
        parser = re.search(r'\bvalue_parser = (\w+)', attrs)
        fields.append({'field': fname, 'ty': ty, 'name': name.group(1) if name else None, 'short': short, 'long': has_long,
                       'requires': requires.group(1) if requires else None, 'conflicts': conflicts.group(1) if conflicts else None,
                       'default': int(default.group(1)) if default else None, 'parser': parser.group(1) if parser else None})
    if len(fields) < 18:
        raise TranslateError('main.rs: only %d clap arguments recognised' % len(fields))
    hm = None
    for mm, b in fn_bodies(src, r'pub\(crate\) fn handle_input\([^)]*\)\s*->\s*Result<\(\), Box<dyn std::error::Error>> \{'):
        hm = b
    if hm is None:
        raise TranslateError('main.rs: handle_input not found')
    ok = hm[hm.index('Ok(test_cases) => {'):]
    ops = []
    pos = 0
    for mm in re.finditer(r'if cli\.(\w+) \{\s*builder\.(\w+)\(([^)]*)\);\s*\}', ok):
        arg = mm.group(3).strip().rstrip(',').strip()
        am = re.fullmatch(r'cli\.(\w+)', arg) if arg else None
        if arg and not am:
            raise TranslateError('main.rs: unrecognised setter argument %r' % arg)
        ops.append((mm.group(1), mm.group(2), am.group(1) if am else None))
    tm = re.search(r'builder\s*\.with_minimum_repetitions\(cli\.(\w+)\)\s*\.with_minimum_substring_length\(cli\.(\w+)\);', ok)
    if not tm:
        raise TranslateError('main.rs: threshold calls not found')
    if not re.search(r'let regexp = builder\.build\(\);\s*println!\("\{\}", regexp\);\s*Ok\(\(\)\)', ok):
        raise TranslateError('main.rs: build/println sequence changed')
    if 'let mut builder = RegExpBuilder::from(&test_cases);' not in ok:
        raise TranslateError('main.rs: builder construction changed')
    n_if = len(re.findall(r'\bif cli\.', ok))
    if n_if != len(ops):
        raise TranslateError('main.rs: %d `if cli.` statements but %d recognised' % (n_if, len(ops)))
    empty_guard = bool(re.search(r'if test_cases\.is_empty\(\) \{\s*return Err\(', ok))
    # value parser: zero rejected
    pm = re.search(r'fn repetition_options_parser\(value: &str\) -> Result<u32, String> \{(.*?)\n    \}', src, re.S)
    if not pm or 'if parsed_value > 0' not in pm.group(1):
        raise TranslateError('main.rs: repetition_options_parser changed')
    return fields, ops, (tm.group(1), tm.group(2)), empty_guard

def gen_cli():
    fields, ops, thr, empty_guard = parse_cli()
    setters = {s['name']: s for s in parse_builder()}
    out = HEADER % 'src/main.rs' + IMPORTS + 'From GrexGen Require Import SrcBuilder.\n\n'
    used = []
    for f, meth, arg in ops:
        used += [f] + ([arg] if arg else [])
    used += list(thr)
    seen = []
    for u in used:
        if u not in seen:
            seen.append(u)
    fty = {f['field']: f['ty'] for f in fields}
    out += 'Record cli := mkCli {\n'
    out += ';\n'.join('  cli_%s : %s' % (u, 'N' if fty.get(u) == 'u32' else 'bool') for u in seen)
    out += '\n}.\n\n'
    out += '(* handle_input: one builder call per set flag, in source order, then the two thresholds *)\n'
    out += 'Definition cli_ops (a : cli) : list setter :=\n'
    parts = []
    for f, meth, arg in ops:
        if meth not in setters:
            raise TranslateError('main.rs: builder method %s is not a recognised setter' % meth)
        call = meth + (' (cli_%s a)' % arg if arg else '')
        parts.append('(if cli_%s a then [%s] else [])' % (f, call))
    parts.append('[with_minimum_repetitions (cli_%s a); with_minimum_substring_length (cli_%s a)]' % thr)
    out += '  ' + '\n  ++ '.join(parts) + '.\n\n'
    out += 'Definition cli_rejects_empty_input : bool := %s.\n\n' % coq_bool(empty_guard)
    # clap names
    out += '(* clap argument table: (long name, short flag or 0, has long flag) *)\n'
    rows = []
    for f in fields:
        nm = f['name'] or f['field']
        rows.append('(%s, %s, %s)' % (coq_str([ord(c) for c in nm]), coq_N(ord(f['short'])) if f['short'] else '0%N', coq_bool(f['long'])))
    out += 'Definition clap_args : list (list N * N * bool) :=\n  [%s].\n\n' % ';\n   '.join(rows)
    byf = {f['field']: f for f in fields}
    sur = byf.get('is_astral_code_point_converted_to_surrogate', {})
    out += 'Definition clap_surrogates_requires_escape : bool := %s.\n' % coq_bool(sur.get('requires') == 'escape')
    out += 'Definition clap_input_conflicts_with_file : bool := %s.\n' % coq_bool(byf.get('input', {}).get('conflicts') == 'file')
    out += 'Definition clap_threshold_defaults : N * N := (%s, %s).\n' % (coq_N(byf[thr[0]]['default'] or 0), coq_N(byf[thr[1]]['default'] or 0))
    out += 'Definition clap_thresholds_reject_zero : bool := %s.\n' % coq_bool(byf[thr[0]]['parser'] == 'repetition_options_parser' and byf[thr[1]]['parser'] == 'repetition_options_parser')
    return out

# ---------------------------------------------------------------- python.rs
def gen_python():
    src = strip_comments(read('src/python.rs'))
    lib = {s['name']: s for s in parse_builder()}
    out = HEADER % 'src/python.rs' + IMPORTS + 'From Coq Require Import ZArith.\nFrom GrexGen Require Import SrcBuilder.\n\n'
    entries = []
    for mm in re.finditer(r'#\[pyo3\(name = "(\w+)"\)\]\s*fn (\w+)\(', src):
        pyname, fname = mm.group(1), mm.group(2)
        if pyname == 'build':
            continue
        start = mm.end()
        sig_end = src.index('{', start)
        sig = src[start:sig_end]
        depth = 1; j = sig_end + 1
        while depth:
            if src[j] == '{': depth += 1
            elif src[j] == '}': depth -= 1
            j += 1
        body = src[sig_end + 1:j - 1]
        am = re.search(r'(\w+): (i32|bool)', sig.replace('mut self_: PyRefMut<Self>', ''))
        arg, ty = (am.group(1), am.group(2)) if am else (None, None)
        guard = None
        g = re.search(r'if %s <= 0 \{\s*Err\(PyValueError::new_err\((\w+)\)\)\s*\} else \{(.*?)Ok\(self_\)\s*\}' % (arg or '@'), body, re.S)
        if g:
            guard = g.group(1)
            if guard not in MSG:
                raise TranslateError('python.rs: %s raises with unknown message %s' % (pyname, guard))
            ups = assigns(g.group(2), 'self_', arg, 'python.rs ' + pyname)
        else:
            ups = assigns(body, 'self_', arg, 'python.rs ' + pyname)
            leftover = re.sub(r'self_\s*\.\s*config\s*\.\s*\w+\s*=\s*[^;]+;', '', body).strip()
            if leftover != 'self_':
                raise TranslateError('python.rs: %s has an unrecognised body %r' % (pyname, leftover[:80]))
        if not ups:
            raise TranslateError('python.rs: %s sets nothing' % pyname)
        if pyname not in lib:
            raise TranslateError('python.rs: %s has no library counterpart' % pyname)
        entries.append({'name': pyname, 'arg': arg, 'ty': ty, 'guard': guard, 'ups': ups})
    if len(entries) < 10:
        raise TranslateError('python.rs: only %d methods recognised' % len(entries))
    out += 'Inductive py_setter :=\n'
    for e in entries:
        out += '| py_%s%s\n' % (e['name'], '' if not e['arg'] else ' (%s : %s)' % (e['arg'], 'Z' if e['ty'] == 'i32' else 'bool'))
    out += '.\n\n(* inl = new configuration; inr = ValueError with that message *)\n'
    out += 'Definition py_apply (s : py_setter) (c : cfg) : cfg + list N :=\n  match s with\n'
    for e in entries:
        pat = 'py_' + e['name'] + (' ' + e['arg'] if e['arg'] else '')
        argexp = '(Z.to_N %s)' % e['arg'] if e['ty'] == 'i32' else e['arg']
        body = 'inl ' + coq_updates(e['ups'], argexp)
        if e['guard']:
            body = 'if Z.leb %s 0 then inr msg_%s else %s' % (e['arg'], e['guard'], body)
        out += '  | %s => %s\n' % (pat, body)
    out += '  end.\n\n'
    out += '(* the library setter each Python method stands for *)\nDefinition py_to_lib (s : py_setter) : setter :=\n  match s with\n'
    for e in entries:
        pat = 'py_' + e['name'] + (' ' + e['arg'] if e['arg'] else '')
        out += '  | %s => %s%s\n' % (pat, e['name'], '' if not e['arg'] else (' (Z.to_N %s)' % e['arg'] if e['ty'] == 'i32' else ' ' + e['arg']))
    out += '  end.\n\n'
    if not re.search(r'if test_cases\.is_empty\(\) \{\s*Err\(PyValueError::new_err\(MISSING_TEST_CASES_MESSAGE\)\)', src):
        raise TranslateError('python.rs: new() no longer raises MISSING_TEST_CASES_MESSAGE on an empty list')
    if not re.search(r'fn py_build\(&mut self\) -> String \{\s*let regexp = self\.build\(\);\s*if self\.config\.is_non_ascii_char_escaped \{\s*replace_unicode_escape_sequences\(regexp\)\s*\} else \{\s*regexp\s*\}', src):
        raise TranslateError('python.rs: py_build changed')
    # the rewrite: one regex, two output widths
    m = re.search(r'Regex::new\(r"\\\\u\\\{\(\[0-9a-f\]\{(\d+),(\d+)\}\)\\\}"\)', src)
    f1 = re.search(r'if code_point <= (0x[0-9a-f]+) \{\s*format!\("\\\\u\{:0(\d)x\}", code_point\)\s*\} else \{\s*format!\("\\\\U\{:0(\d)x\}", code_point\)', src)
    if not m or not f1 or 'u32::from_str_radix(&caps[1], 16)' not in src:
        raise TranslateError('python.rs: replace_unicode_escape_sequences has an unrecognised shape')
    out += 'Definition py_rx_min_digits : nat := %s.\nDefinition py_rx_max_digits : nat := %s.\n' % (m.group(1), m.group(2))
    out += 'Definition py_bmp_limit : N := %s.\nDefinition py_bmp_width : nat := %s.\nDefinition py_astral_width : nat := %s.\n' % (
        coq_N(int(f1.group(1), 16)), f1.group(2), f1.group(3))
    return out

# ---------------------------------------------------------------- wasm.rs
def gen_wasm():
    src = strip_comments(read('src/wasm.rs'))
    out = HEADER % 'src/wasm.rs' + IMPORTS + 'From GrexGen Require Import SrcBuilder.\n\n'
    def snake(n):
        return re.sub(r'(?<!^)([A-Z])', lambda m: '_' + m.group(1).lower(), n)
    lib = {s['name']: s for s in parse_builder()}
    entries = []
    for m, body in fn_bodies(src, r'pub fn (\w+)\(&mut self(?:, (\w+): (\w+))?\) -> (RegExpBuilder|Result<RegExpBuilder, JsValue>) \{'):
        name, arg, ty, ret = m.group(1), m.group(2), m.group(3), m.group(4)
        guard = None
        rest = body
        g = re.search(r'if %s < 1 \{\s*return Err\(JsValue::from\((\w+)\)\);\s*\}' % (arg or '@'), body)
        if g:
            guard = g.group(1); rest = body.replace(g.group(0), '')
            if guard not in MSG:
                raise TranslateError('wasm.rs: %s throws unknown message %s' % (name, guard))
        ups = assigns(rest.replace('self.builder', 'SELFB'), 'SELFB', arg, 'wasm.rs ' + name)
        leftover = re.sub(r'self\s*\.\s*builder\s*\.\s*config\s*\.\s*\w+\s*=\s*[^;]+;', '', re.sub(r'\s+', ' ', rest)).strip()
        leftover = re.sub(r'self \. builder \. config \. \w+ = [^;]+;', '', leftover).strip()
        if leftover not in ('self.clone()', 'Ok(self.clone())') or not ups:
            raise TranslateError('wasm.rs: %s has an unrecognised body %r' % (name, leftover[:80]))
        if snake(name) not in lib:
            raise TranslateError('wasm.rs: %s has no library counterpart %s' % (name, snake(name)))
        entries.append({'name': name, 'lib': snake(name), 'arg': arg, 'ty': ty, 'guard': guard, 'ups': ups})
    if len(entries) < 10:
        raise TranslateError('wasm.rs: only %d methods recognised' % len(entries))
    out += 'Inductive wasm_setter :=\n'
    for e in entries:
        out += '| wasm_%s%s\n' % (e['name'], '' if not e['arg'] else ' (%s : %s)' % (e['arg'], 'N' if e['ty'] == 'u32' else 'bool'))
    out += '.\n\n(* the receiver is mutated and a clone returned: inl = the new configuration of both; inr = thrown message *)\n'
    out += 'Definition wasm_apply (s : wasm_setter) (c : cfg) : cfg + list N :=\n  match s with\n'
    for e in entries:
        pat = 'wasm_' + e['name'] + (' ' + e['arg'] if e['arg'] else '')
        body = 'inl ' + coq_updates(e['ups'], e['arg'])
        if e['guard']:
            body = 'if N.ltb %s 1 then inr msg_%s else %s' % (e['arg'], e['guard'], body)
        out += '  | %s => %s\n' % (pat, body)
    out += '  end.\n\nDefinition wasm_to_lib (s : wasm_setter) : setter :=\n  match s with\n'
    for e in entries:
        pat = 'wasm_' + e['name'] + (' ' + e['arg'] if e['arg'] else '')
        out += '  | %s => %s%s\n' % (pat, e['lib'], ' ' + e['arg'] if e['arg'] else '')
    out += '  end.\n\n'
    if not re.search(r'\.filter_map\(\|it\| it\.as_string\(\)\)\s*\.collect_vec\(\);\s*if strs\.is_empty\(\) \{\s*return Err\(JsValue::from\(MISSING_TEST_CASES_MESSAGE\)\);', src):
        raise TranslateError('wasm.rs: from() changed (filter of non-strings / empty check)')
    if 'builder: Builder::from(&strs)' not in src:
        raise TranslateError('wasm.rs: from() does not delegate to Builder::from')
    if not re.search(r'pub fn build\(&mut self\) -> String \{\s*self\.builder\.build\(\)\s*\}', src):
        raise TranslateError('wasm.rs: build() does not delegate')
    return out

WRAPPER_FILES = {'SrcBuilder.v': gen_builder, 'SrcCli.v': gen_cli, 'SrcPython.v': gen_python, 'SrcWasm.v': gen_wasm}
